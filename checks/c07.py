"""C07 - Compiled speedups and pure-Python code are observably equivalent (partial: kernel functions)."""
import json
from fractions import Fraction

from common import enc_arr, enc_vec, enc_f, dyadic, dec_res, run_impl_parallel, NonFinite
from framework import prove, finish

DEPS = ["Props/C07.vo"]
F = Fraction
U = F(1, 2 ** 53)


def rows(rng, n, dim, bits=6, pb=2):
    return [[dyadic(rng, bits, pb) for _ in range(n + 1)] for _ in range(dim)]


def tri(rng, d, dim, bits=5, pb=1):
    n = (d + 1) * (d + 2) // 2
    return [[dyadic(rng, bits, pb) for _ in range(n)] for _ in range(dim)]


def gen_jobs(ctx):
    """(op, args, kind) : kind 'exact' = outputs must be identical, 'num' = few units of rounding relative to the data"""
    rng = ctx.rng
    jobs = []
    reps = 3 if ctx.quick() else 30
    for _ in range(reps):
        for n in [1, 2, 3, 4, 5, 8, 12]:
            dim = rng.randint(1, 4)
            r = rows(rng, n, dim)
            s = F(rng.randint(0, 8), 8)
            jobs.append(("shim.subdivide_nodes", [enc_arr(r)], "exact"))
            jobs.append(("shim.evaluate_multi", [enc_arr(r), enc_vec([s, F(0), F(1)])], "num"))
            jobs.append(("shim.elevate_nodes", [enc_arr(r)], "num"))
            jobs.append(("shim.specialize_curve", [enc_arr(r), enc_f(F(1, 4)), enc_f(F(3, 4))], "num"))
            jobs.append(("shim.evaluate_hodograph", [enc_f(s), enc_arr(r)], "num"))
            if n <= 4:
                jobs.append(("shim.reduce_pseudo_inverse", [enc_arr(r)], "num"))
                jobs.append(("shim.full_reduce", [enc_arr(r)], "num"))
            else:
                jobs.append(("shim.reduce_pseudo_inverse", [enc_arr(r)], "exact"))     # must raise the same exception type
            if n <= 3:
                # genuinely degree-elevated nets (rounded to binary64: the same doubles go to both configurations): the
                # discrete outcome of full_reduce (how far it reduces) must agree; nets not starting at the origin
                import oracle_q as oq
                el = [list(x) for x in r]
                for _k in range(rng.randint(1, 4 - n) if n < 4 else 0):
                    el = [oq.elevate(x) for x in el]
                el = [[F(float(v)) for v in x] for x in el]
                jobs.append(("shim.full_reduce", [enc_arr(el)], "num"))
                jobs.append(("shim.reduce_pseudo_inverse", [enc_arr(el)], "num"))
            r2 = rows(rng, n, 2)
            jobs.append(("shim.bbox", [enc_arr(r2)], "exact"))
            jobs.append(("shim.contains_nd", [enc_arr(r2), enc_vec([F(rng.randint(-8, 8), 4), F(rng.randint(-8, 8), 4)])], "exact"))
            # ... and in the dimension of r (1..4): inside the box in every coordinate but possibly one
            pt_ = [(min(x) + max(x)) / 2 for x in r]
            if rng.random() < 0.6:
                k_ = rng.randrange(dim)
                pt_[k_] = max(r[k_]) + 1
            if all(F(float(x)) == x for x in pt_):
                jobs.append(("shim.contains_nd", [enc_arr(r), enc_vec(pt_)], "exact"))
            pts = [[F(rng.randint(0, 3)) for _ in range(rng.randint(1, 7))] for _ in range(2)]
            pts[1] = pts[1][:len(pts[0])] + [F(0)] * (len(pts[0]) - len(pts[1]))
            jobs.append(("shim.simple_convex_hull", [enc_arr(pts)], "exact"))
            jobs.append(("shim.bbox_intersect", [enc_arr(r2), enc_arr(rows(rng, rng.randint(1, 4), 2))], "exact"))
            jobs.append(("shim.vector_close", [enc_vec([F(1), F(2)]), enc_vec([F(1) + F(rng.choice([0, 1, 3]), 2 ** rng.choice([38, 40, 42])), F(2)])], "exact"))
            jobs.append(("shim.locate_point_curve", [enc_arr(r2), enc_arr([[r2[0][0]], [r2[1][0]]])], "num"))
        for d in [1, 2, 3, 4, 5, 6]:
            dim = rng.randint(1, 3)
            t = tri(rng, d, dim)
            pts = [[F(1, 4), F(1, 4), F(1, 2)], [F(1), F(0), F(0)], [F(0), F(1, 2), F(1, 2)]]
            jobs.append(("shim.tri_evaluate_barycentric_multi", [enc_arr(t), d, enc_arr(pts), dim], "num"))
            jobs.append(("shim.tri_evaluate_cartesian_multi", [enc_arr(t), d, enc_arr([p[1:] for p in pts]), dim], "num"))
            jobs.append(("shim.tri_subdivide_nodes", [enc_arr(t), d], "exact"))
            jobs.append(("shim.tri_compute_edge_nodes", [enc_arr(t), d], "exact"))
            t2 = tri(rng, d, 2)
            jobs.append(("shim.tri_jacobian_both", [enc_arr(t2), d, 2], "exact"))
            jobs.append(("shim.tri_jacobian_det", [enc_arr(t2), d, enc_arr([p[1:] for p in pts])], "num"))
        # every remaining shim pair (each kernel pair of the enumeration appears in this sweep)
        for n in [1, 2, 3, 4, 6]:
            r2 = rows(rng, n, 2)
            s = F(rng.randint(1, 7), 8)
            l1s, l2s = [F(1, 4), F(1), F(3, 8)], [F(3, 4), F(0), F(1, 8)]
            jobs.append(("shim.evaluate_multi_barycentric", [enc_arr(r2), enc_vec(l1s), enc_vec(l2s)], "num"))
            jobs.append(("shim.newton_refine_curve", [enc_arr(r2), enc_arr([[r2[0][0] + F(1, 8)], [r2[1][0] - F(1, 8)]]), enc_f(s)], "num"))
            o = rows(rng, rng.randint(1, 4), 2)
            jobs.append(("shim.newton_refine_intersect", [enc_f(s), enc_arr(r2), enc_f(F(3, 8)), enc_arr(o)], "num"))
            if n >= 2:
                jobs.append(("shim.compute_length", [enc_arr(r2)], "len"))
            # tangent at s: exact hodograph value through the dyadic oracle is not needed: any non-zero vector is a valid argument
            jobs.append(("shim.get_curvature", [enc_arr(r2), enc_arr([[F(1)], [F(1, 2)]]), enc_f(s)], "num"))
        for _k in range(3):
            a_, b_ = [F(rng.randint(-8, 8), 4), F(rng.randint(-8, 8), 4)], [F(rng.randint(-8, 8), 4), F(rng.randint(-8, 8), 4)]
            jobs.append(("shim.cross_product", [enc_vec(a_), enc_vec(b_)], "exact"))
            v_ = F(rng.choice([-1, 0, 1, 2, 3]), 2) + F(rng.choice([-3, -1, 0, 1, 3]), 2 ** rng.choice([40, 45, 50]))
            jobs.append(("shim.wiggle_interval", [enc_f(F(float(v_)))], "exact"))
            jobs.append(("shim.in_interval", [enc_f(F(rng.randint(-4, 4), 4)), enc_f(F(-1, 2)), enc_f(F(1, 2))], "exact"))
            sq = lambda x0, y0, w: [[F(x0), F(x0 + w), F(x0 + w), F(x0)], [F(y0), F(y0), F(y0 + w), F(y0 + w)]]
            jobs.append(("shim.polygon_collide", [enc_arr(sq(0, 0, 2)), enc_arr(sq(rng.randint(-3, 3), rng.randint(-3, 3), 1))], "exact"))
        for d in [1, 2, 3, 4, 5]:
            t2 = tri(rng, d, 2)
            jobs.append(("shim.tri_evaluate_barycentric", [enc_arr(t2), d, enc_f(F(1, 4)), enc_f(F(1, 4)), enc_f(F(1, 2))], "num"))
            jobs.append(("shim.tri_specialize", [enc_arr(t2), d, enc_vec([F(1), F(0), F(0)]), enc_vec([F(1, 2), F(1, 2), F(0)]), enc_vec([F(1, 4), F(1, 4), F(1, 2)])], "num"))
            base = [[F(0), F(1), F(0)], [F(0), F(0), F(1)]]
            jobs.append(("shim.newton_refine_triangle", [enc_arr(t2), d, enc_f(F(1, 2)), enc_f(F(1, 4)), enc_f(F(1, 4)), enc_f(F(1, 4))], "num"))
            if d <= 3:
                # a point of a well conditioned lattice triangle (located parameters agree to rounding; None must agree)
                xs_, ys_ = [], []
                for k_ in range(d + 1):
                    for j_ in range(d + 1 - k_):
                        xs_.append(F(j_)); ys_.append(F(k_))
                jobs.append(("shim.locate_point_triangle", [enc_arr([xs_, ys_]), d, enc_f(F(d, 4)), enc_f(F(d, 2))], "num"))
        # compute_area: closed boundaries with edges of every supported degree (1..4), exact dyadic data
        for deg in (1, 2, 3, 4):
            corners = [(F(0), F(0)), (F(4), F(0)), (F(1), F(3))]
            edges = []
            for k in range(3):
                p0, p1 = corners[k], corners[(k + 1) % 3]
                xs = [p0[0] + (p1[0] - p0[0]) * F(i, deg) + (F(rng.randint(-2, 2), 4) if 0 < i < deg else 0) for i in range(deg + 1)]
                ys = [p0[1] + (p1[1] - p0[1]) * F(i, deg) + (F(rng.randint(-2, 2), 4) if 0 < i < deg else 0) for i in range(deg + 1)]
                if not all(F(float(x)) == x for x in xs + ys):
                    xs = [F(float(x)) for x in xs]; ys = [F(float(y)) for y in ys]
                edges.append(enc_arr([xs, ys]))
            jobs.append(("shim.tri_compute_area", [edges], "num"))
        # the >= 30 regime of the triangle evaluator (F4)
        for d in (29, 30, 31):
            n = (d + 1) * (d + 2) // 2
            t = [[F(1)] * n]
            jobs.append(("shim.tri_evaluate_barycentric_multi", [enc_arr(t), d, enc_arr([[F(1, 4), F(1, 4), F(1, 2)], [F(1), F(0), F(0)]]), 1], "num"))
        # curve-curve intersections on lattice nets: counts / flags / exception types must agree
        for _ in range(4):
            c1 = [[F(rng.randint(0, 4)) for _ in range(rng.randint(2, 4))] for _ in range(2)]
            c1[1] = (c1[1] + [F(1)] * 4)[:len(c1[0])]
            c2 = [[F(rng.randint(0, 4)) for _ in range(rng.randint(2, 4))] for _ in range(2)]
            c2[1] = (c2[1] + [F(2)] * 4)[:len(c2[0])]
            if len(set(zip(*c1))) > 1 and len(set(zip(*c2))) > 1:
                jobs.append(("shim.all_intersections", [enc_arr(c1), enc_arr(c2)], "isect"))
    jobs.extend(zoo_jobs())
    # overlapping sub-arcs of one parent curve (every relative position, same / reversed direction, elevated): the coincident flag,
    # the number of columns and the exception type must agree (2400 such pairs agree on the unchanged tree)
    from checks import c20
    for c in c20.gen_overlaps(ctx):
        jobs.append(("shim.all_intersections", [enc_arr(c["c1"]), enc_arr(c["c2"])], "isect"))
    # ... and, directed, the four end-point configurations of a partial overlap (same / opposite direction, at the start / at the end
    # of both curves): curve2 = curve1 restricted to [1/2, 3/2], [-1/2, 1/2], [1/2, -1/2], [3/2, 1/2], for three parents
    import oracle_q as oq
    for parent in ([[F(0), F(4), F(8)], [F(0), F(8), F(0)]],
                   [[F(0), F(2), F(6), F(8)], [F(0), F(8), F(-4), F(4)]],
                   [[F(0), F(2), F(4), F(6), F(8)], [F(0), F(8), F(0), F(8), F(0)]]):
        for a, b in ((F(1, 2), F(3, 2)), (F(-1, 2), F(1, 2)), (F(1, 2), F(-1, 2)), (F(3, 2), F(1, 2))):
            piece = [oq.specialize(r, a, b) for r in parent]
            if all(F(float(v)) == v for r in piece for v in r):
                jobs.append(("shim.all_intersections", [enc_arr(parent), enc_arr(piece)], "isect"))
                jobs.append(("shim.all_intersections", [enc_arr(piece), enc_arr(parent)], "isect"))
    # pairs with two crossings 2^-11 .. 2^-12 apart (C03's closed-form family): the number of crossings must agree (the duplicate
    # test of the compiled add_intersection has its own copy of the threshold: seed c03-6)
    from checks import c03
    for c in c03.gen_close_pairs(ctx):
        jobs.append(("shim.all_intersections", [enc_arr(c["c1"]), enc_arr(c["c2"])], "isect"))
    # two segments on one lattice line (the only way to the compiled parallel_lines_parameters): every relative position and
    # both directions; here the PARAMETERS are compared as well (one division each in both configurations)
    for _ in range(12 if ctx.quick() else 200):
        while True:
            d = (rng.randint(-3, 3), rng.randint(-3, 3))
            if d != (0, 0):
                break
        p = (rng.randint(-4, 4), rng.randint(-4, 4))
        a, b, c, e = [rng.randint(-4, 4) for _ in range(4)]
        if a == b or c == e:
            continue
        seg = lambda u, v: [[F(p[0] + u * d[0]), F(p[0] + v * d[0])], [F(p[1] + u * d[1]), F(p[1] + v * d[1])]]
        jobs.append(("shim.all_intersections", [enc_arr(seg(a, b)), enc_arr(seg(c, e))], "isect_num"))
    # the branch of an opposite-direction overlap that starts before the first segment and ends inside it, pinned
    jobs.append(("shim.all_intersections", [enc_arr([[F(0), F(4)], [F(0), F(8)]]), enc_arr([[F(3), F(-1)], [F(6), F(-2)]])], "isect_num"))
    return jobs


def zoo_jobs():
    """the repository's own curve-curve cases (tests/functional/*.json): they include the pairs on which the pipeline raises
    (Newton failure at a triple root, too many candidates): exception types must agree between the configurations"""
    import json
    import os
    base = os.path.join(os.environ.get("BEZIER_REPO", "/repo"), "tests", "functional")
    out = []
    try:
        curves = json.load(open(os.path.join(base, "curves.json")))
        cases = json.load(open(os.path.join(base, "curve_intersections.json")))
    except (OSError, ValueError):
        return out

    def num(x):
        if isinstance(x, str) and x.startswith("0x") or isinstance(x, str) and "p" in x:
            return F(float.fromhex(x))
        return F(x)
    for c in cases:
        try:
            n1 = [[num(v) for v in row] for row in curves[str(c["curve1"])]["control_points"]]
            n2 = [[num(v) for v in row] for row in curves[str(c["curve2"])]["control_points"]]
        except (KeyError, ValueError, TypeError):
            continue
        if all(F(float(v)) == v for r in n1 + n2 for v in r):
            out.append(("shim.all_intersections", [enc_arr(n1), enc_arr(n2)], "isect"))
    return out


def flat(x, out):
    if isinstance(x, (list, tuple)) and not (isinstance(x, tuple) and len(x) == 2 and x[0] in ("enum", "nonfinite")):
        for e in x:
            flat(e, out)
    else:
        out.append(x)
    return out


def compare(kind, pure, fast, args):
    if kind == "len" and "exc" in pure:
        return None
    if ("exc" in pure) != ("exc" in fast):
        return "one configuration raised (%s), the other returned" % (pure.get("exc") or fast.get("exc"))
    if "exc" in pure:
        return None if pure["exc"] == fast["exc"] else "exception types differ: %s vs %s" % (pure["exc"], fast["exc"])
    a, b = dec_res(pure["ok"]), dec_res(fast["ok"])
    if kind == "isect":
        # discrete outcome: number of intersections and the coincident flag
        na = len(a[0][0]) if a[0] and a[0][0] else 0
        nb = len(b[0][0]) if b[0] and b[0][0] else 0
        if na != nb or a[1] != b[1]:
            return "intersection count / coincident flag differ: %d,%s vs %d,%s" % (na, a[1], nb, b[1])
        return None
    if kind == "isect_num":
        na = len(a[0][0]) if a[0] and a[0][0] else 0
        nb = len(b[0][0]) if b[0] and b[0][0] else 0
        if na != nb or a[1] != b[1]:
            return "intersection count / coincident flag differ: %d,%s vs %d,%s" % (na, a[1], nb, b[1])
        for ra, rb in zip(a[0] or [], b[0] or []):
            for x, y in zip(ra, rb):
                if abs(x - y) > 64 * U:
                    return "parameters of collinear segments differ: %r vs %r" % (float(x), float(y))
        return None
    if kind == "len":
        # compute_length needs SciPy in the pure configuration (absent here): compared when both ran
        return None
    fa, fb = flat(a, []), flat(b, [])
    if len(fa) != len(fb):
        return "result shapes differ"
    # rounding allowance relative to the larger of the outputs and 1 (inputs are dyadic numbers of magnitude 1..32; parameters
    # live in [0,1]): an output that is itself a rounding residue (5e-13 for a parameter that is exactly 0) is not compared
    # relative to its own size
    scale = max([abs(x) for x in fa if isinstance(x, F)] + [F(1)])
    for x, y in zip(fa, fb):
        if isinstance(x, F) and isinstance(y, F):
            if kind == "exact":
                if x != y:
                    return "values differ on exact data: %r vs %r" % (float(x), float(y))
            elif abs(x - y) > 64 * U * scale:
                return "values differ by more than a few units of rounding: %r vs %r" % (float(x), float(y))
        elif isinstance(x, NonFinite) or isinstance(y, NonFinite):
            if not (isinstance(x, NonFinite) and isinstance(y, NonFinite)):
                return "non-finite in one configuration only"
        elif x != y:
            return "discrete outcomes differ: %r vs %r" % (x, y)
    return None


F20_SIG = ("F20 pure-Python Triangle.intersect raises ValueError('Unexpected duplicate count', 4) on a lattice triangle pair "
           "(four edge-edge intersections in one point) where the compiled triangle_intersections returns normally")


def triangle_pairs(ctx):
    """the shim pair _triangle_intersection.geometric_intersect through Triangle.intersect on exact (lattice) triangle pairs of degree
    1, also presented elevated to degree 2: region kinds, number of sides and the contained triangle must be identical; random
    pairs, and directed 'second triangle inside the first, touching its boundary with one corner' pairs with every corner order"""
    rng = ctx.rng
    orient = lambda a, b, c: (b[0] - a[0]) * (c[1] - a[1]) - (b[1] - a[1]) * (c[0] - a[0])
    # pinned instance of known finding F20 (the two triangles share the corner (3, 2))
    cases = [([(F(1), F(0)), (F(2), F(0)), (F(3), F(2))], [(F(1), F(1)), (F(3), F(2)), (F(4), F(3))])]
    n_rand = 60 if ctx.quick() else 1500
    while len(cases) < n_rand:
        A = [(F(rng.randint(0, 4)), F(rng.randint(0, 4))) for _ in range(3)]
        B = [(F(rng.randint(0, 4)), F(rng.randint(0, 4))) for _ in range(3)]
        if orient(*A) > 0 and orient(*B) > 0:
            cases.append((A, B))
    for _ in range(12 if ctx.quick() else 200):
        # B inside A = (0,0),(4w,0),(0,4w) (or a sheared copy), one corner of B on the boundary of A, the other two strictly inside
        w = rng.choice([1, 2])
        sh = rng.choice([0, 1])
        mp = lambda p: (p[0] + sh * p[1], p[1])
        A = [mp((F(0), F(0))), mp((F(4 * w), F(0))), mp((F(0), F(4 * w)))]
        on = rng.choice([(F(0), F(0)), (F(2 * w), F(0)), (F(0), F(w)), (F(2 * w), F(2 * w)), (F(4 * w), F(0)), (F(w), F(3 * w))])
        ins = [(F(w), F(w)), (F(2 * w), F(w)), (F(w), F(2 * w))]
        q1, q2 = rng.sample(ins, 2)
        B = [mp(on), mp(q1), mp(q2)]
        if orient(*B) < 0:
            B = [B[0], B[2], B[1]]
        if orient(*B) == 0:
            continue
        r = rng.randrange(3)
        B = B[r:] + B[:r]                      # the touching corner is corner 1, 2 or 3 of B
        cases.append((A, B))
        cases.append((B, A))
    rows = lambda t: [[p[0] for p in t], [p[1] for p in t]]
    from checks.c17 import tri_elevate
    jobs, meta = [], []
    for (A, B) in cases:
        jobs.append({"op": "Triangle.intersect_summary", "args": [enc_arr(rows(A)), enc_arr(rows(B))]})
        meta.append((A, B, "linear"))
        if rng.random() < 0.3:
            ea, eb = tri_elevate(rows(A), 1), tri_elevate(rows(B), 1)
            if all(F(float(x)) == x for r_ in ea + eb for x in r_):
                jobs.append({"op": "Triangle.intersect_summary", "args": [enc_arr(ea), enc_arr(eb)]})
                meta.append((A, B, "elevated"))

    def summ(r):
        if "exc" in r:
            return ("exc", r["exc"])
        out = []
        for x in dec_res(r["ok"]):
            out.append((x[0], len(x[2])) if x[0] == "polygon" else (x[0], tuple(tuple(q) for q in x[1])))
        return tuple(sorted(out, key=str))
    stats = {"cases": len(jobs), "failures": 0, "known": 0,
             "kind": "cross-configuration sweep of Triangle.intersect (shim pair geometric_intersect) on lattice triangle pairs: kinds of the regions, "
                     "numbers of sides, the contained triangle, exception types"}
    try:
        rp = run_impl_parallel("pure", jobs)
        rf = run_impl_parallel("speedup", jobs)
    except RuntimeError as exc:
        ctx.violations.append({"kind": "implementation-run-failed", "detail": str(exc)[-1500:], "no_input": True})
        return
    for (A, B, pres), a, b in zip(meta, rp, rf):
        if summ(a) == summ(b):
            continue
        if a.get("exc") == "ValueError" and "Unexpected duplicate count" in a.get("msg", "") and "exc" not in b:
            stats["known"] += 1
            if F20_SIG not in ctx.known_hits:
                ctx.known_hits.append(F20_SIG)
            continue
        stats["failures"] += 1
        if stats["failures"] <= 5:
            ctx.violations.append({"kind": "configurations-disagree", "op": "Triangle.intersect", "case": {"first": A, "second": B, "presentation": pres},
                                   "pure": a, "speedup": b,
                                   "verdict": "Triangle.intersect differs between the configurations: pure %s, compiled %s" % (summ(a), summ(b))})
    ctx.corr["sweep:triangle_intersection_cross_configuration"] = stats


def run(ctx):
    prove(ctx, DEPS)
    jobs = gen_jobs(ctx)
    payload = [{"op": op, "args": args} for op, args, _ in jobs]
    stats = {"cases": len(jobs), "kind": "cross-configuration sweep of the shim pairs (support, not proof)", "failures": 0,
             "ops": sorted({j[0] for j in jobs})}
    try:
        rp = run_impl_parallel("pure", payload)
        rf = run_impl_parallel("speedup", payload)
        for (op, args, kind), a, b in zip(jobs, rp, rf):
            v = compare(kind, a, b, args)
            if v:
                stats["failures"] += 1
                if stats["failures"] <= 5:
                    ctx.violations.append({"kind": "configurations-disagree", "op": op, "case": {"args": args}, "pure": a, "speedup": b, "verdict": v})
    except RuntimeError as exc:
        ctx.violations.append({"kind": "implementation-run-failed", "detail": str(exc)[-1500:], "no_input": True})
    ctx.corr["sweep:cross_configuration"] = stats
    ctx.samples.append({"sweep": "cross_configuration", "case": {"op": jobs[0][0], "args": jobs[0][1]}})
    triangle_pairs(ctx)
    return finish(ctx, "PROVED here: equality of the twin constants regenerated from both languages, the wiggle default, the evaluation switch "
                  "literal, the declared type of the compiled binomial accumulator, and totality of the classification of the shim names "
                  "enumerated from the AST of the six shim modules; twelve scalar Fortran kernels regenerated from the Fortran text (f902v_fn) equal "
                  "their regenerated Python twins (in_interval, cross_product, bbox, contains_nd, wiggle_interval, segment_intersection for every "
                  "value; bbox_intersect on planar nets; parallel_lines_parameters on planar points up to rational equality); the status-code -> exception map: one enum in status.h / _status.pxd / status.f90, "
                  "the two `switch (status)` of the compiled _speedup.c implement the if-chains of _speedup.pyx, and every exception of a status "
                  "has a raise statement with the same class and the same message text in the pure-Python modules (INSUFFICIENT_SPACE and UNKNOWN "
                  "are compiled-only). The equivalence of each kernel pair is decided in the property named by "
                  "the classification (both configurations are corresponded with ONE Gallina model there). The cross-configuration sweep "
                  "here is support. Intersection pipelines, triangle-triangle intersection, locate and compute_length are compared on "
                  "discrete outcomes only",
                  unproved=["that the Fortran code sets a status under the same conditions as the Python code raises (outcome sweeps)", "triangle_intersections / curve_intersections numerics",
                            "Fortran closed forms are not translated (correspondence only)"])
