"""C10 - Locating a point inverts evaluation (partial)."""
from fractions import Fraction

from common import enc_arr, enc_f, coq_q, coq_list, coq_mat, dyadic, dec_res, run_impl
from framework import prove, correspond, sweep, finish
import oracle_q as oq
import isect_oracle as io

DEPS = ["Props/C10.vo", "Corr/C10.vo"]
HEADER = "From Coq Require Import List QArith.\nFrom BZ Require Import Corr.Common Corr.C10.\nImport ListNotations.\nOpen Scope Q_scope.\n"
F = Fraction


def gen_curve_cases(ctx):
    """dyadic nets certified injective/regular, points at dyadic parameters (exactly representable), and off-curve points"""
    rng = ctx.rng
    out = []
    tries = 0
    want = 40 if ctx.quick() else 600
    while len(out) < want and tries < 50 * want:
        tries += 1
        n = rng.randint(1, 6)
        rows = [[F(rng.randint(-8, 8), 2) for _ in range(n + 1)] for _ in range(2)]
        if not io.hodograph_halfplane(rows):
            continue
        # dimension 2, 3 or 4 (injectivity is certified on the first two coordinates)
        for _extra in range(rng.choice([0, 0, 1, 1, 2])):
            rows.append([F(rng.randint(-8, 8), 2) for _ in range(n + 1)])
        kind = rng.choice(["on", "on", "end", "off-box", "off-box", "off-near"])
        if kind == "on":
            s = F(rng.randint(0, 2 ** 5), 2 ** 5)
        elif kind == "end":
            s = F(rng.choice([0, 1]))
        else:
            s = F(rng.randint(0, 8), 8)
        p = [oq.bernstein(r, s) for r in rows]
        if kind == "off-box":
            # outside the control-point box in ONE coordinate (any of them, the last included), on the curve in the others
            k_ = rng.randrange(len(rows))
            p[k_] = max(rows[k_]) + 1 if rng.random() < 0.5 else min(rows[k_]) - 1
        if kind == "off-near":
            p = [p[0] + F(1, 4), p[1] - F(1, 4)] + p[2:]
        if not all(F(float(x)) == x for x in p):
            continue
        out.append({"rows": rows, "p": p, "s": s, "kind": kind, "n": n})
    return out


def val_out(res, c):
    return [("val", res)]


def coq_loc(c, obs):
    t = "(%s, %s, " % (coq_mat(c["rows"]), coq_list(c["p"]))
    if obs[0][0] in ("exc", "malformed"):
        return None
    v = obs[0][1]
    if v is None:
        return [t + "@None Q, 0)"]
    return [t + "Some %s, %s)" % (coq_q(v), coq_q(F(1, 2 ** 30)))]


def judge_loc(c, op, cfg, raw):
    if "exc" in raw:
        return "raised %s: %s" % (raw["exc"], raw.get("msg", "")[:80])
    v = dec_res(raw["ok"])
    if c["kind"] in ("on", "end"):
        if v is None:
            return "a point of the curve (parameter %s, exactly representable) was not located" % c["s"]
        if not 0 <= v <= 1:
            return "located parameter %r outside [0,1]" % float(v)
        if abs(v - c["s"]) > F(1, 2 ** 30):
            return "located %r, true parameter %r" % (float(v), float(c["s"]))
    elif c["kind"] == "off-box":
        if v is not None:
            return "a point outside the control-point box was located at %r" % float(v)
    elif v is not None and not 0 <= v <= 1:
        return "located parameter %r outside [0,1]" % float(v)
    return None


# ---- float round trip (F5) and triangles (F11): support sweeps with known-finding signatures
def gen_roundtrip(ctx):
    rng = ctx.rng
    # first the witness of the model-level theorem C10_float_round_trip_refuted (Props/C10.v)
    out = [{"rows": [[F(-4278419646001971, 2251799813685248), F(-5854679515581645, 4503599627370496), F(2)],
                     [F(-3602879701896397, 4503599627370496), F(8106479329266893, 4503599627370496), F(3602879701896397, 2251799813685248)]],
            "s": F(1, 8), "n": 2}]
    for _ in range(60 if ctx.quick() else 1500):
        n = rng.randint(2, 5)
        rows = [[F(rng.randint(-20, 20), 10) for _ in range(n + 1)] for _ in range(2)]
        rows = [[F(float(x)) for x in r] for r in rows]
        if not io.hodograph_halfplane(rows):
            continue
        out.append({"rows": rows, "s": F(rng.randint(1, 15), 16), "n": n})
    return out


def run(ctx):
    prove(ctx, DEPS)
    cases = gen_curve_cases(ctx)
    a = lambda c: [enc_arr(c["rows"]), enc_arr([[x] for x in c["p"]])]
    correspond(ctx, "locate_point_curve", cases,
               [("Curve.locate", a, val_out), ("shim.locate_point_curve", a, val_out), ("hazmat.locate_point_curve", a, val_out)],
               coq_loc, HEADER, "chk_locate", judge=judge_loc, nontrivial=lambda c: c["kind"] == "on")
    # float round trip: evaluate in binary64, then locate (two-step job executed by the worker in sequence)
    rt = gen_roundtrip(ctx)
    stats = {"cases": 0, "none": 0, "outside": 0, "kind": "support sweep: float-evaluated points; None results are finding F5"}
    for cfg in ("pure", "speedup"):
        ev = run_impl(cfg, [{"op": "Curve.evaluate", "args": [enc_arr(c["rows"]), enc_f(c["s"])]} for c in rt])
        jobs = []
        for c, r in zip(rt, ev):
            pt = dec_res(r["ok"])
            jobs.append({"op": "Curve.locate", "args": [enc_arr(c["rows"]), enc_arr([[pt[0][0]], [pt[1][0]]])]})
        res = run_impl(cfg, jobs)
        for c, r in zip(rt, res):
            stats["cases"] += 1
            if "exc" in r:
                ctx.violations.append({"kind": "property-fails-on-implementation", "sweep": "float_round_trip", "config": cfg, "op": "Curve.locate",
                                       "case": c, "implementation_returned": r, "verdict": "raised %s" % r["exc"]})
                continue
            v = dec_res(r["ok"])
            if v is None:
                stats["none"] += 1
                sig = "F5 Curve.locate returns None for a point obtained by floating-point evaluation on a non-dyadic net (closed box test without slack)"
                if sig not in ctx.known_hits:
                    ctx.known_hits.append(sig)
            elif not 0 <= v <= 1:
                stats["outside"] += 1
                ctx.violations.append({"kind": "property-fails-on-implementation", "sweep": "float_round_trip", "config": cfg, "op": "Curve.locate",
                                       "case": c, "implementation_returned": r, "verdict": "located parameter outside [0,1]"})
            elif abs(v - c["s"]) > F(1, 2 ** 20):
                ctx.violations.append({"kind": "property-fails-on-implementation", "sweep": "float_round_trip", "config": cfg, "op": "Curve.locate",
                                       "case": c, "implementation_returned": r, "verdict": "located %r, evaluated at %r" % (float(v), float(c["s"]))})
    ctx.corr["sweep:float_round_trip"] = stats
    # triangles: located parameters of points obtained at dyadic parameters of lattice triangles
    rng = ctx.rng
    tri = []
    for _ in range(60 if ctx.quick() else 1200):
        d = rng.randint(1, 3)
        fam = rng.choice(["lattice", "lattice", "graph-x", "graph-y"])
        xs, ys = [], []
        for k in range(d + 1):
            for j in range(d + 1 - k):
                # lattice: perturbed lattice net; graph-*: one coordinate is exactly the parameter (x = s or y = t)
                xs.append(F(j, d) if fam == "graph-x" else F(j) + F(rng.randint(-1, 1), 8))
                ys.append(F(k, d) if fam == "graph-y" else F(k) + F(rng.randint(-1, 1), 8))
        xs, ys = [F(float(v)) for v in xs], [F(float(v)) for v in ys]
        # parameters: dyadic break points of the bisection (k/8) and generic values (30 bits) mixed
        gen = lambda: F(rng.randint(1, 2 ** 30 - 1), 2 ** 30)
        pk = rng.choice(["dyadic", "dyadic", "s-dyadic", "t-dyadic", "generic"])
        s = F(rng.randint(0, 8), 8) if pk in ("dyadic", "s-dyadic") else gen() / 2
        t = F(rng.randint(0, 8 - int(s * 8)), 8) if pk in ("dyadic", "t-dyadic") else gen() * (1 - s) * F(7, 8)
        if s + t > 1 or (pk != "dyadic" and (s + t > F(15, 16))):
            continue
        px, py = oq.tri_bernstein(xs, d, 1 - s - t, s, t), oq.tri_bernstein(ys, d, 1 - s - t, s, t)
        exact = all(F(float(x)) == x for x in (px, py))
        if pk == "dyadic" and not exact:
            continue
        # generic parameters: the point is rounded to binary64 (perturbs the parameters by about 2^-50 on these well conditioned nets)
        tri.append({"d": d, "rows": [xs, ys], "st": (s, t), "p": (F(float(px)), F(float(py))), "family": fam, "params": pk})

    def judge_tri(c, op, cfg, raw):
        if "exc" in raw:
            return "raised %s" % raw["exc"]
        v = dec_res(raw["ok"])
        if v is None:
            return "a point of the triangle was not located"
        s, t = v
        if abs(s - c["st"][0]) > F(1, 2 ** 40) or abs(t - c["st"][1]) > F(1, 2 ** 40):
            return "located (%r, %r), true parameters %s" % (float(s), float(t), tuple(map(float, c["st"])))
        if s < 0 or t < 0 or s + t > 1:
            return "OUTSIDE: located parameters (%r, %r) are outside the reference triangle" % (float(s), float(t))
        return None

    def known_tri(c, op, cfg, raw):
        v = judge_tri(c, op, cfg, raw)
        if v and v.startswith("OUTSIDE"):
            s, t = c["st"]
            if s == 0 or t == 0 or s + t == 1:
                return "F11 Triangle.locate returns parameters outside the reference triangle by rounding amounts for points on its boundary (no clamp)"
        return None
    sweep(ctx, "Triangle_locate", tri, [("Triangle.locate", lambda c: [enc_arr(c["rows"]), enc_arr([[c["p"][0]], [c["p"][1]]])])], judge_tri, known=known_tri)
    # ---- off-shape points at graded distances (triangles): a straight-sided triangle presented with degree 1..4 (exact elevation), a point
    # beyond each edge at relative distance 2^-17 .. 2^-5 (the final search resolution is 2^-20 of the size): must yield None in both configurations
    off = []
    for _ in range(48 if ctx.quick() else 1200):
        A = (F(rng.randint(0, 2)), F(rng.randint(0, 2)))
        B = (A[0] + F(rng.randint(2, 4)), A[1] + F(rng.randint(-1, 1)))
        C = (A[0] + F(rng.randint(-1, 1)), A[1] + F(rng.randint(2, 4)))
        d = rng.randint(1, 4)
        xs, ys = [], []
        for k in range(d + 1):
            for j in range(d + 1 - k):
                l2, l3 = F(j, d), F(k, d)
                xs.append((1 - l2 - l3) * A[0] + l2 * B[0] + l3 * C[0])
                ys.append((1 - l2 - l3) * A[1] + l2 * B[1] + l3 * C[1])
        if not all(F(float(v)) == v for v in xs + ys):
            continue
        verts = [A, B, C]
        e = rng.randrange(3)
        P, Q, R = verts[e], verts[(e + 1) % 3], verts[(e + 2) % 3]
        u = F(rng.randint(1, 15), 16)
        base = (P[0] + u * (Q[0] - P[0]), P[1] + u * (Q[1] - P[1]))
        n = (Q[1] - P[1], -(Q[0] - P[0]))                      # a normal of the edge PQ, scaled by its length (2 .. 5)
        if n[0] * (R[0] - P[0]) + n[1] * (R[1] - P[1]) > 0:    # make it point away from the third vertex
            n = (-n[0], -n[1])
        delta = F(1, 2 ** rng.choice([17, 16, 15, 14, 12, 10, 8, 5]))
        pt = (base[0] + delta * n[0], base[1] + delta * n[1])
        off.append({"d": d, "rows": [xs, ys], "p": pt, "edge": e, "delta": delta})

    def judge_off(c, op, cfg, raw):
        if "exc" in raw:
            return "raised %s" % raw["exc"]
        v = dec_res(raw["ok"])
        return None if v is None else "a point at distance >= %s beyond an edge of a straight-sided triangle was located at %s" % (
            float(2 * c["delta"]), tuple(map(float, v)))
    sweep(ctx, "Triangle_locate_off_shape_graded", off, [("Triangle.locate", lambda c: [enc_arr(c["rows"]), enc_arr([[c["p"][0]], [c["p"][1]]])])], judge_off)
    # ---- malformed stream: a point of the wrong shape must raise the documented ValueError ("Dimension mismatch") whatever the
    # configuration; the correct shape D x 1 is in the streams above
    bad = []
    for dim in (2, 3):
        nodes = [[F(0), F(1), F(2)], [F(0), F(1), F(0)], [F(0), F(2), F(1)]][:dim]
        pt = [F(1), F(1, 2), F(1, 4), F(3, 4), F(1, 8), F(7, 8)]
        for shape in ([dim, 2], [dim], [dim, 1, 1], [dim + 1, 1], [1, dim], [dim, 0], [1, 1], [dim, 3]):
            cnt = 1
            for x in shape:
                cnt *= x
            bad.append({"op": "Curve.locate_shaped", "nodes": nodes, "vals": [float(x).hex() for x in (pt * 2)[:cnt]], "shape": shape, "dim": dim})
    tnodes = [[F(0), F(1), F(0)], [F(0), F(0), F(1)]]
    for shape in ([2, 2], [2], [2, 1, 1], [3, 1], [1, 2], [2, 3]):
        cnt = 1
        for x in shape:
            cnt *= x
        bad.append({"op": "Triangle.locate_shaped", "nodes": tnodes, "vals": [float(F(1, 4)).hex()] * cnt, "shape": shape, "dim": 2})
    mstats = {"cases": len(bad), "failures": 0, "kind": "malformed stream: wrong-shape points must raise ValueError (Dimension mismatch)"}
    for cfg in ("pure", "speedup"):
        res = run_impl(cfg, [{"op": c["op"], "args": [enc_arr(c["nodes"]), c["vals"], c["shape"]]} for c in bad])
        for c, r in zip(bad, res):
            ok = r.get("exc") == "ValueError" and "Dimension mismatch" in r.get("msg", "")
            if not ok:
                mstats["failures"] += 1
                if mstats["failures"] <= 3:
                    ctx.violations.append({"kind": "property-fails-on-implementation", "sweep": "wrong_shape_points", "config": cfg, "op": c["op"],
                                           "case": {"nodes": c["nodes"], "point_shape": c["shape"]}, "implementation_returned": r,
                                           "verdict": "a %d-dimensional shape was given a point of shape %s: expected the documented ValueError "
                                                      "(Dimension mismatch), got %s" % (c["dim"], c["shape"], r.get("exc") or "a normal return")})
    ctx.corr["sweep:wrong_shape_points"] = mstats
    return finish(ctx, "PROVED (exact arithmetic, over R, every degree and dimension): a point of the curve is never pruned by the bisection - at "
                  "every depth it lies in the closed box of the sub-curve whose interval contains its parameter (restriction invariant from "
                  "C04 + convex hull from C01). The executable model of locate_point (rounds, spread cap on squares, Newton step, clamp; "
                  "constants from the source) is tied by correspondence on dyadic nets with exactly representable points, both "
                  "configurations, including None for points outside the box. NOT PROVED: Newton accuracy; the FLOAT round trip is "
                  "refuted on the unchanged tree (F5) and triangle locate leaves the domain by rounding amounts (F11): known findings",
                  unproved=["accuracy of the Newton polish", "float round trip (finding F5)", "triangle locate (support sweep; finding F11)",
                            "the documented error for points of the wrong shape: malformed stream (8 shapes x 2 dimensions for curves, 6 for triangles), not a theorem"])
