"""C18 - Curve self-intersections are found and are genuine (partial)."""
import math
from fractions import Fraction

from common import enc_arr, coq_q, dec_res, run_impl
from framework import prove, correspond, sweep, finish
import oracle_q as oq
import isect_oracle as io

DEPS = ["Props/C18.vo", "Corr/C18.vo"]
HEADER = "From Coq Require Import List QArith.\nFrom BZ Require Import Model.SelfIsect Corr.Common Corr.C18.\nImport ListNotations.\nOpen Scope Q_scope.\n"
F = Fraction


def planted(rng, n):
    """degree-n planar net with B(a) = B(b) for a < b (one control point solved for, then rounded to binary64).
    a, b have 30 significant bits: NOT break points of the bisection.  (Crossings that sit exactly on a corner of the
    subdivision grid of a non-dyadic net can be lost by the pure-Python all_intersections - finding F14, pinned in C03 -
    and would make this sweep report C03's defect instead of testing the self-intersection logic.)"""
    from math import comb
    while True:
        rows = [[F(rng.randint(-12, 12), 2) for _ in range(n + 1)] for _ in range(2)]
        # both parameters anywhere in (0,1) at least 3/16 apart: straddling the split point 1/2 or in the same half
        ka = rng.randint(1, 11)
        kb = rng.randint(ka + 3, 14)
        a = F(ka, 16) + F(2 * rng.randint(0, 2 ** 24) + 1, 2 ** 30)
        b = F(kb, 16) + F(2 * rng.randint(0, 2 ** 24) + 1, 2 ** 30)
        k = rng.randint(1, n - 1)
        w = lambda j, s: comb(n, j) * s ** j * (1 - s) ** (n - j)
        den = w(k, a) - w(k, b)
        if den == 0:
            continue
        for r in rows:
            r[k] = F(float(-sum((w(j, a) - w(j, b)) * r[j] for j in range(n + 1) if j != k) / den))
        pts = list(zip(*rows))
        if any(pts[i] == pts[i + 1] for i in range(len(pts) - 1)):
            continue            # a repeated control point (zero tangent): finding F7's class, pinned separately
        p0, p1 = pts[0], next(q for q in pts if q != pts[0])
        if all((p1[0] - p0[0]) * (q[1] - p0[1]) - (p1[1] - p0[1]) * (q[0] - p0[0]) == 0 for q in pts):
            continue            # all control points on one line: the curve overlaps itself, not finitely many crossings
        if all(abs(x) < 64 for r in rows for x in r):
            return rows, a, b


def gen(ctx):
    rng = ctx.rng
    out = [{"rows": [[F(0), F(-1), F(1), F(-3, 4)], [F(2), F(0), F(1), F(13, 8)]], "kind": "doctest-cubic-loop",
            "expected": ((3 - math.sqrt(5)) / 6, (3 + math.sqrt(5)) / 6)}]
    for _ in range(12 if ctx.quick() else 300):
        n = rng.randint(3, 6)
        rows, a, b = planted(rng, n)
        out.append({"rows": rows, "kind": "planted", "a": a, "b": b})
    # symmetric cubic loops whose single crossing sits ON the dyadic grid of the bisection (s = (1 - k/8)/2 and 1 - s): integer nets
    # x = (-192 + 3 k^2, 192 + k^2, -(192 + k^2), 192 - 3 k^2), y = (0, c, c, 0), optionally sheared / scaled by integers and elevated
    for _ in range(10 if ctx.quick() else 200):
        k = rng.randint(2, 7)
        c = F(rng.choice([32, 64, 96, 128]))
        xs = [F(-192 + 3 * k * k), F(192 + k * k), F(-192 - k * k), F(192 - 3 * k * k)]
        ys = [F(0), c, c, F(0)]
        m = rng.choice([((1, 0), (0, 1)), ((1, 1), (0, 1)), ((1, 0), (1, 1)), ((0, 1), (-1, 0)), ((2, 1), (1, 1))])
        rows = [[m[0][0] * x + m[0][1] * y for x, y in zip(xs, ys)], [m[1][0] * x + m[1][1] * y for x, y in zip(xs, ys)]]
        rows = [[v / 64 for v in r] for r in rows]
        for _e in range(rng.randint(0, 2)):
            rows = [oq.elevate(r) for r in rows]
        if all(F(float(v)) == v for r in rows for v in r):
            out.append({"rows": rows, "kind": "grid-loop", "a": (1 - F(k, 8)) / 2, "b": (1 + F(k, 8)) / 2})
    # the grid loops presented SMALL (scaled by 2^-7 .. 2^-13, exact): nothing absolute may enter (seed c18-8: an absolute
    # parallelism threshold in segment_intersection drops the crossing of small loops whose branches linearize at different depths)
    small = []
    for c in [c for c in out if c["kind"] == "grid-loop"]:
        for k in (7, 10, 13):
            sc = F(1, 2 ** k)
            small.append(dict(c, rows=[[v * sc for v in r] for r in c["rows"]], kind="grid-loop", scale=k))
    for _ in range(10 if ctx.quick() else 200):
        # asymmetric small loops: a planted crossing, scaled
        n = rng.randint(3, 5)
        rows, a, b = planted(rng, n)
        k = rng.choice([7, 10, 12, 13])
        sc = F(1, 2 ** k)
        cand_ = {"rows": [[v * sc for v in r] for r in rows], "kind": "planted", "a": a, "b": b, "scale": k}
        if planted_is_clear(cand_):          # nearly tangential planted crossings make no claim: not presented small at all
            small.append(cand_)
    # random integer cubics with exactly one self-crossing (closed form: (B(s) - B(t))/(s - t) = c1 + c2 u + c3 w, u = s + t,
    # w = u^2 - s t is linear in (u, w)), well inside (0,1) and transversal, presented at sizes 1, 2^-10, 2^-12, 2^-13
    tries = 0
    loops = 0
    # (corpus first: four loops whose branches linearize at different depths, from seed c18-8)
    corpus = [((5, -7, -5, -3), (3, 4, 2, 4)), ((6, -8, -3, -4), (-7, 4, -1, 1)), ((-7, -1, -6, -2), (0, 3, -6, 8)), ((4, -3, 4, -1), (-6, -1, -7, -1))]
    while loops < (10 if ctx.quick() else 124) and tries < 20000:
        tries += 1
        if corpus:
            xs_, ys_ = corpus.pop(0)
            P = [(F(x), F(y)) for x, y in zip(xs_, ys_)]
        else:
            P = [(F(rng.randint(-8, 8)), F(rng.randint(-8, 8))) for _ in range(4)]
        c1 = [3 * (P[1][k] - P[0][k]) for k in (0, 1)]
        c2 = [3 * (P[0][k] - 2 * P[1][k] + P[2][k]) for k in (0, 1)]
        c3 = [P[3][k] - 3 * P[2][k] + 3 * P[1][k] - P[0][k] for k in (0, 1)]
        det = c2[0] * c3[1] - c2[1] * c3[0]
        if det == 0:
            continue
        u = (-c1[0] * c3[1] + c1[1] * c3[0]) / det
        w = (-c2[0] * c1[1] + c2[1] * c1[0]) / det
        disc = u * u - 4 * (u * u - w)
        if disc <= 0:
            continue
        root = math.sqrt(float(disc))
        s_, t_ = 0.5 * (float(u) - root), 0.5 * (float(u) + root)
        if not (0.06 < s_ < 0.94 and 0.06 < t_ < 0.94 and t_ - s_ > 0.15):
            continue
        rows0 = [[p[0] for p in P], [p[1] for p in P]]
        d = lambda x: [3 * oq.bernstein([r[i + 1] - r[i] for i in range(3)], F(x).limit_denominator(2 ** 20)) for r in rows0]
        da, db = d(s_), d(t_)
        cr = da[0] * db[1] - da[1] * db[0]
        if cr * cr * 16 < (da[0] ** 2 + da[1] ** 2) * (db[0] ** 2 + db[1] ** 2):
            continue                                  # crossing angle below about 14 degrees
        loops += 1
        for k in (0, 10, 12, 13):
            sc = F(1, 2 ** k)
            small.append({"rows": [[v * sc for v in r] for r in rows0], "kind": "integer-loop", "a": s_, "b": t_, "scale": k})
    out.extend(small)
    # the same loops re-parametrised (exact specialization to a dyadic interval [al, be]) so that ONE of the two crossing
    # parameters is exactly the split point 1/2 (or 1/4, 3/4: a split point of the second level): the crossing is then found by
    # the left-right intersection AND inside a half, and must still be reported exactly once (finding F19, repaired)
    for _ in range(8 if ctx.quick() else 150):
        k = rng.randint(2, 7)
        c = F(rng.choice([32, 64, 96, 128]))
        xs = [F(-192 + 3 * k * k), F(192 + k * k), F(-192 - k * k), F(192 - 3 * k * k)]
        ys = [F(0), c, c, F(0)]
        rows = [[v / 64 for v in xs], [v / 64 for v in ys]]
        s1, s2 = (1 - F(k, 8)) / 2, (1 + F(k, 8)) / 2
        w = rng.choice([F(2), F(3, 2), F(5, 4), F(3)])
        target = rng.choice([F(1, 2), F(1, 2), F(1, 4), F(3, 4)])
        which = rng.choice([0, 1])
        al = (s1, s2)[which] - target * w
        be = al + w
        u1, u2 = (s1 - al) / w, (s2 - al) / w
        if not (0 < u1 < u2 < 1):
            continue
        rows = [oq.specialize(r, al, be) for r in rows]
        for _e in range(rng.randint(0, 1)):
            rows = [oq.elevate(r) for r in rows]
        if all(F(float(v)) == v for r in rows for v in r):
            out.append({"rows": rows, "kind": "split-loop", "a": u1, "b": u2})
    for _ in range(8 if ctx.quick() else 200):
        n = rng.randint(2, 6)
        rows = [[F(rng.randint(-8, 8), 2) for _ in range(n + 1)] for _ in range(2)]
        if io.hodograph_halfplane(rows):
            out.append({"rows": rows, "kind": "convex-arc"})
    return out


def traced_out(res, c):
    return [("val", res)]


def coq_traced(c, obs):
    if obs[0][0] in ("exc", "malformed"):
        return None
    angles, isects, out = obs[0][1][:3]
    pl = lambda arr: "[" + "; ".join("(%s, %s)" % (coq_q(s), coq_q(t)) for s, t in (zip(arr[0], arr[1]) if arr and arr[0] else [])) + "]"
    return ["([%s], [%s], %s)" % ("; ".join("true" if a else "false" for a in angles), "; ".join(pl(i) for i in isects), pl(out))]


def planted_is_clear(c):
    """the planted crossing B(a) = B(b) is transversal with a clear angle (|sin| >= 2^-5): only then the property claims it"""
    n = len(c["rows"][0]) - 1
    d = lambda s: [n * oq.bernstein([r[i + 1] - r[i] for i in range(n)], s) for r in c["rows"]]
    da, db = d(c["a"]), d(c["b"])
    cr = da[0] * db[1] - da[1] * db[0]
    return cr * cr * 2 ** 10 >= (da[0] ** 2 + da[1] ** 2) * (db[0] ** 2 + db[1] ** 2)


def judge(c, op, cfg, raw):
    if "exc" in raw:
        if c["kind"] == "planted" and c.get("scale") and not planted_is_clear(c):
            return None      # a nearly tangential planted crossing of a small net: a refusal makes no claim (false alarm of the
                             # thorough tier when the small presentations were added: two crossings 3e-3 apart, 'Unsupported multiplicity')
        return "raised %s: %s" % (raw["exc"], raw.get("msg", "")[:80])
    arr = dec_res(raw["ok"])
    pairs = list(zip(arr[0], arr[1])) if arr and arr[0] else []
    size = io.net_size(c["rows"])
    for s1, s2 in pairs:
        if not (0 <= s1 < s2 <= 1):
            return "reported pair (%r, %r) does not satisfy 0 <= s1 < s2 <= 1" % (float(s1), float(s2))
        if s2 - s1 < F(1, 2 ** 20):
            return "reported pair (%r, %r) has no clear gap" % (float(s1), float(s2))
        if io.residual(c["rows"], c["rows"], s1, s2) > F(1, 2 ** 28) * size:
            return "reported pair (%r, %r) is not a self-intersection" % (float(s1), float(s2))
    if c["kind"] == "convex-arc" and pairs:
        return "a curve whose tangent stays in an open half-plane reported a self-intersection"
    if c["kind"] == "planted":
        if not any(abs(s1 - c["a"]) < F(1, 2 ** 20) and abs(s2 - c["b"]) < F(1, 2 ** 20) for s1, s2 in pairs):
            # the planted crossing may be tangential / ill conditioned: only claim when the crossing angle is clear
            n = len(c["rows"][0]) - 1
            d = lambda s: [n * oq.bernstein([r[i + 1] - r[i] for i in range(n)], s) for r in c["rows"]]
            da, db = d(c["a"]), d(c["b"])
            cr = da[0] * db[1] - da[1] * db[0]
            if cr * cr * 2 ** 10 >= (da[0] ** 2 + da[1] ** 2) * (db[0] ** 2 + db[1] ** 2):
                return "planted transversal self-crossing B(%s) = B(%s) not reported (got %s)" % (c["a"], c["b"], [tuple(map(float, p)) for p in pairs])
    if c["kind"] == "integer-loop":
        if len(pairs) != 1 or abs(float(pairs[0][0]) - c["a"]) > 1e-9 or abs(float(pairs[0][1]) - c["b"]) > 1e-9:
            return "integer cubic loop (size 2^-%d) crossing itself exactly once at (%.12f, %.12f): got %s" % (
                c["scale"], c["a"], c["b"], [tuple(map(float, p)) for p in pairs])
    if c["kind"] == "split-loop":
        if len(pairs) != 1 or abs(pairs[0][0] - c["a"]) > F(1, 2 ** 30) or abs(pairs[0][1] - c["b"]) > F(1, 2 ** 30):
            return "cubic loop crossing itself exactly once, at (%s, %s) with a parameter on a split point: got %s" % (
                c["a"], c["b"], [tuple(map(float, p)) for p in pairs])
    if c["kind"] == "grid-loop":
        if len(pairs) != 1 or abs(pairs[0][0] - c["a"]) > F(1, 2 ** 30) or abs(pairs[0][1] - c["b"]) > F(1, 2 ** 30):
            return "symmetric cubic loop crossing itself exactly once at (%s, %s): got %s" % (c["a"], c["b"], [tuple(map(float, p)) for p in pairs])
    if c["kind"] == "doctest-cubic-loop":
        e = c["expected"]
        if len(pairs) != 1 or abs(float(pairs[0][0]) - e[0]) > 1e-9 or abs(float(pairs[0][1]) - e[1]) > 1e-9:
            return "cubic loop: expected exactly (%r, %r), got %s" % (e[0], e[1], [tuple(map(float, p)) for p in pairs])
    return None


def run(ctx):
    prove(ctx, DEPS)
    cases = gen(ctx)
    a = lambda c: [enc_arr(c["rows"])]
    correspond(ctx, "self_intersections_glue", cases, [("hazmat.self_intersections_traced", a, traced_out)],
               coq_traced, HEADER, "chk_self", configs=("pure", "speedup"), nontrivial=lambda c: c["kind"] != "convex-arc")
    def coq_traced_n(c, obs):
        if obs[0][0] in ("exc", "malformed"):
            return None
        from common import coq_mat
        angles, isects, out = obs[0][1][:3]
        pl = lambda arr: "[" + "; ".join("(%s, %s)" % (coq_q(s), coq_q(t)) for s, t in (zip(arr[0], arr[1]) if arr and arr[0] else [])) + "]"
        return ["(%s, [%s], [%s], %s)" % (coq_mat(c["rows"]), "; ".join("true" if a else "false" for a in angles), "; ".join(pl(i) for i in isects), pl(out))]
    correspond(ctx, "self_intersections_glue_with_nodes", cases, [("hazmat.self_intersections_traced", a, traced_out)],
               coq_traced_n, HEADER, "chk_self_n", configs=("pure",), nontrivial=lambda c: c["kind"] != "convex-arc")

    def coq_calls(c, obs):
        if obs[0][0] in ("exc", "malformed"):
            return None
        angles, _isects, _out, call_nodes = obs[0][1]
        from common import coq_mat
        size = max(abs(x) for r in c["rows"] for x in r) or F(1)
        return ["(%s, [%s], [%s], %s)" % (coq_mat(c["rows"]), "; ".join("true" if a else "false" for a in angles),
                                         "; ".join(coq_mat(n) for n in call_nodes), coq_q(F(1, 2 ** 40) * size))]
    correspond(ctx, "self_intersections_visits_left_then_right", cases, [("hazmat.self_intersections_traced", a, traced_out)],
               coq_calls, HEADER, "chk_self_calls", configs=("pure",), nontrivial=lambda c: c["kind"] != "convex-arc")
    sweep(ctx, "self_intersections_genuine_and_found", cases, [("Curve.self_intersections", a)], judge)
    # F7: repeated last control point -> unbounded recursion (pinned input; any other crash is reported)
    r = run_impl("pure", [{"op": "Curve.self_intersections_limited", "args": [enc_arr([[F(0), F(1), F(0), F(0)], [F(0), F(1), F(1), F(1)]])]}])[0]
    if r.get("exc") == "RecursionError":
        ctx.known_hits.append("F7 self_intersections recurses without bound when the last two control points coincide: nodes [[0,1,0,0],[0,1,1,1]] -> RecursionError")
    elif "exc" in r:
        ctx.violations.append({"kind": "property-fails-on-implementation", "op": "Curve.self_intersections", "config": "pure",
                               "case": {"rows": "[[0,1,0,0],[0,1,1,1]]"}, "implementation_returned": r, "verdict": "raised %s" % r["exc"]})
    return finish(ctx, "PROVED: the shape of the result - for the hand model of self_intersections with the turning-angle test and the "
                  "left-vs-right all_intersections call as oracles (any answers in the unit square): every reported pair satisfies "
                  "0 <= s1 < s2 <= 1 at every recursion depth (the trivial meeting at the split point is never reported); small turning "
                  "angle gives the empty result; out-of-fuel is explicit. Tie: the oracle answers of real runs are RECORDED (the two "
                  "functions are wrapped for the duration of the call) and replayed in the model inside Coq: the glue (rescaling, "
                  "split-point removal, stacking order) must agree exactly. NOT PROVED: genuineness and completeness (C02/C03 limits), "
                  "termination (refuted: F7)",
                  unproved=["genuineness / completeness of the crossings (support sweep: cubic loop, planted crossings, convex arcs)",
                            "termination (finding F7)", "arctan2-based turning angle is an oracle"])
