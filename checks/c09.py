"""C09 - Triangle subdivision tiles the original surface."""
from fractions import Fraction

from common import enc_arr, enc_vec, coq_q, coq_list, coq_mat, dyadic, dec_res, run_impl
from framework import prove, correspond, finish
import oracle_q as oq

DEPS = ["Props/C09.vo", "Corr/C09.vo"]
HEADER = "From Coq Require Import List QArith.\nFrom BZ Require Import Corr.Common Corr.C09.\nImport ListNotations.\nOpen Scope Q_scope.\n"
U = Fraction(1, 2 ** 53)
H = Fraction(1, 2)
QUARTERS = [((1, 0, 0), (H, H, 0), (H, 0, H)), ((0, H, H), (H, 0, H), (H, H, 0)),
            ((H, H, 0), (0, 1, 0), (0, H, H)), ((H, 0, H), (0, H, H), (0, 0, 1))]


def tri_rows(rng, d, dim, vb, kind):
    n = (d + 1) * (d + 2) // 2
    rows = []
    for _ in range(dim):
        if kind == "unit":
            j = rng.randrange(n)
            rows.append([Fraction(1 if i == j else 0) for i in range(n)])
        else:
            rows.append([dyadic(rng, vb, 4) for _ in range(n)])
    return rows


def gen_cases(ctx):
    rng = ctx.rng
    cases = []
    # every degree in every ambient dimension 1, 2, 3 (a special path for one-row nets of one degree escaped random dimensions:
    # seed c09-6)
    for d in list(range(1, 11)) * (1 if ctx.quick() else 6):
        for dim in (1, 2, 3):
            kind = rng.choice(["unit", "random", "random"])
            cases.append({"d": d, "rows": tri_rows(rng, d, dim, 20, kind), "kind": kind})
    # one degree in several ambient dimensions in a row, larger first and smaller first (all cases of a configuration run in one
    # process: scratch space of the compiled routines must not leak from one call to the next)
    for d in (2, 5, 6):
        for dim in (3, 1, 2, 3, 1):
            cases.append({"d": d, "rows": tri_rows(rng, d, dim, 20, "random"), "kind": "random"})
    return cases


def gen_spec(ctx):
    rng = ctx.rng
    out = []
    for d in list(range(1, 8)) * (1 if ctx.quick() else 6):
        ws = []
        for _ in range(3):
            a = rng.randint(-2, 6); b = rng.randint(-2, 6)
            ws.append((Fraction(a, 4), Fraction(b, 4), 1 - Fraction(a, 4) - Fraction(b, 4)))
        out.append({"d": d, "rows": tri_rows(rng, d, rng.randint(1, 2), 8, rng.choice(["unit", "random"])), "w": ws, "kind": "spec"})
    return out


def subdiv_out(res, c):
    # res = [A, B, C, D], each dim x N
    return [("row", i, [res[p][i] for p in range(4)]) for i in range(len(c["rows"]))]


def coq_sub(c, obs):
    if obs[0][0] in ("exc", "malformed"):
        return None
    return ["(%d%%nat, %s, %s, 0)" % (c["d"], coq_list(c["rows"][i]), coq_mat(parts)) for (_k, i, parts) in obs]


def spec_out(res, c):
    return [("row", i, res[i]) for i in range(len(c["rows"]))]


def coq_spec(c, obs):
    if obs[0][0] in ("exc", "malformed"):
        return None
    d = c["d"]
    out = []
    for (_k, i, o) in obs:
        big = max([abs(x) for x in c["rows"][i]] + [Fraction(1)])
        g = max(sum(abs(x) for x in w) for w in c["w"])
        tol = 6 * (d + 1) * U * big * g ** d
        out.append("(%d%%nat, %s, %s, %s, %s, %s, %s)" % (d, coq_list(c["rows"][i]), coq_list(c["w"][0]), coq_list(c["w"][1]),
                                                     coq_list(c["w"][2]), coq_list(o), coq_q(tol)))
    return out


def exact_piece(row, d, wa, wb, wc):
    """Exact control points of the restriction of B to the triangle (wa, wb, wc): by interpolation-free
    blossoming in rational arithmetic (definition: polar form evaluated with repeated arguments)."""
    def one_round(v, deg, w):
        out = []
        idx = lambda j, k: sum(deg + 1 - kk for kk in range(k)) + j
        for k in range(deg):
            for j in range(deg - k):
                out.append(w[0] * v[idx(j, k)] + w[1] * v[idx(j + 1, k)] + w[2] * v[idx(j, k + 1)])
        return out
    res = []
    for k in range(d + 1):
        for j in range(d + 1 - k):
            i = d - j - k
            v, deg = list(row), d
            for w, cnt in ((wa, i), (wb, j), (wc, k)):
                for _ in range(cnt):
                    v = one_round(v, deg, w)
                    deg -= 1
            res.append(v[0])
    return res


def judge_sub(c, op, cfg, raw):
    """property-level: each piece evaluated at sample points equals the original at the mapped points;
    neighbouring pieces share boundary control points"""
    if "exc" in raw:
        return "raised %s: %s" % (raw["exc"], raw.get("msg"))
    res = dec_res(raw["ok"])
    d = c["d"]
    pts = [(Fraction(1, 4), Fraction(1, 4), Fraction(1, 2)), (Fraction(1), Fraction(0), Fraction(0)), (Fraction(0), Fraction(1, 2), Fraction(1, 2))]
    for i, row in enumerate(c["rows"]):
        big = max([abs(x) for x in row] + [Fraction(1, 2 ** 60)])
        for p, (wa, wb, wc) in enumerate(QUARTERS):
            piece = res[p][i]
            for mu in pts:
                lam = tuple(mu[0] * wa[t] + mu[1] * wb[t] + mu[2] * wc[t] for t in range(3))
                got = oq.tri_bernstein(piece, d, *mu)
                want = oq.tri_bernstein(row, d, *lam)
                if abs(got - want) > 8 * (d + 1) * U * big:
                    return "piece %s of row %d is not the restriction to its quarter: at mu=%s got %r want %r" % (
                        "ABCD"[p], i, mu, float(got), float(want))
    return None


def search(ctx):
    for cfg in ("pure", "speedup"):
        jobs, meta = [], []
        for d in range(1, 8):
            n = (d + 1) * (d + 2) // 2
            rows = [[Fraction(1 if i == j else 0) for i in range(n)] for j in range(n)]
            c = {"d": d, "rows": rows}
            jobs.append({"op": "Triangle.subdivide", "args": [enc_arr(rows)]})
            meta.append(c)
        res = run_impl(cfg, jobs)
        for c, raw in zip(meta, res):
            v = judge_sub(c, "", cfg, raw)
            if v:
                return {"config": cfg, "op": "Triangle.subdivide", "case": c, "implementation_returned": raw, "verdict": v}
    return None


def run(ctx):
    prove(ctx, DEPS)
    cases = gen_cases(ctx)
    nontriv = lambda c: any(len(set(r)) > 1 for r in c["rows"])
    correspond(ctx, "subdivide", cases,
               [("Triangle.subdivide", lambda c: [enc_arr(c["rows"])], subdiv_out),
                ("shim.tri_subdivide_nodes", lambda c: [enc_arr(c["rows"]), c["d"]], subdiv_out),
                ("hazmat.tri_subdivide_nodes", lambda c: [enc_arr(c["rows"]), c["d"]], subdiv_out)],
               coq_sub, HEADER, "chk_tri_subdivide", judge=judge_sub, nontrivial=nontriv)
    # the generic path on the table degrees too (same answer must come out): specialize_triangle with the quarter weights
    spec = gen_spec(ctx)
    for c in cases[:8]:
        for (wa, wb, wc) in QUARTERS[:2]:
            spec.append({"d": c["d"], "rows": c["rows"], "w": [tuple(Fraction(x) for x in wa), tuple(Fraction(x) for x in wb), tuple(Fraction(x) for x in wc)], "kind": "quarter"})
    a_spec = lambda c: [enc_arr(c["rows"]), c["d"]] + [enc_vec(list(w)) for w in c["w"]]
    correspond(ctx, "specialize_triangle", spec,
               [("shim.tri_specialize", a_spec, spec_out), ("hazmat.tri_specialize", a_spec, spec_out)],
               coq_spec, HEADER, "chk_tri_specialize", nontrivial=nontriv)
    # integer-valued nets handed to the pure-Python helpers as INTEGER arrays (the compiled twins only take float64 buffers): "all
    # control nets" includes them; same model, same exact answer
    ints = [c for c in cases if all(x.denominator == 1 for r in c["rows"] for x in r)]
    rng = ctx.rng
    for d in range(1, 9):
        num = (d + 1) * (d + 2) // 2
        ints.append({"d": d, "rows": [[Fraction(rng.randint(-9, 9)) for _ in range(num)] for _ in range(2)], "kind": "integer"})
    as_int = lambda c: {"ai": [[int(x) for x in r] for r in c["rows"]]}
    correspond(ctx, "subdivide_integer_arrays", ints, [("hazmat.tri_subdivide_nodes", lambda c: [as_int(c), c["d"]], subdiv_out)],
               coq_sub, HEADER, "chk_tri_subdivide", judge=judge_sub, configs=("pure",), nontrivial=nontriv)
    return finish(ctx, "theorems: triangle blossoming at the level of index functions AND for the list-level model that is run "
                  "against the code (specialize_tri returns the control net of mu -> B(mu1 a + mu2 b + mu3 c); every degree, any ring); "
                  "the hard-coded tables equal the generic path for all real nets (field over R, regenerated tables/weights). The model "
                  "applies the rounds directly: the dictionary memoisation of the Python code and the Fortran workspace scheme are tied "
                  "by exact correspondence",
                  search=search,
                  unproved=["dictionary memoisation (Python) / odd-even workspaces (Fortran) of specialize_triangle: correspondence only",
                            "rounding bound"])
