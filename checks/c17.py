"""C17 - Intersections do not depend on how the same geometry is presented (partial)."""
from fractions import Fraction

from common import enc_arr, dec_res, run_impl_parallel
from framework import prove, finish
from checks import isect_common as ic
import isect_oracle as io

DEPS = ["Props/C17.vo"]
F = Fraction
TOL = F(1, 2 ** 20)


def presentations(c1, c2):
    """(name, nodes1, nodes2, relabel) : relabel maps a result pair of the presentation back to (s, t) of the original"""
    rev = lambda c: [list(reversed(r)) for r in c]
    aff = lambda c, f: [[f(0, x) for x in c[0]], [f(1, y) for y in c[1]]]
    out = [("identity", c1, c2, lambda s, t: (s, t)),
           ("swap arguments", c2, c1, lambda s, t: (t, s)),
           ("reverse first", rev(c1), c2, lambda s, t: (1 - s, t)),
           ("reverse second", c1, rev(c2), lambda s, t: (s, 1 - t)),
           ("elevate first", io.elevate_rows(c1), c2, lambda s, t: (s, t)),
           ("translate", aff(c1, lambda k, x: x + (3 if k == 0 else -5)), aff(c2, lambda k, x: x + (3 if k == 0 else -5)), lambda s, t: (s, t)),
           ("swap axes", [c1[1], c1[0]], [c2[1], c2[0]], lambda s, t: (s, t)),
           ("mirror x", aff(c1, lambda k, x: -x if k == 0 else x), aff(c2, lambda k, x: -x if k == 0 else x), lambda s, t: (s, t)),
           ("scale by 4", aff(c1, lambda k, x: 4 * x), aff(c2, lambda k, x: 4 * x), lambda s, t: (s, t))]
    return [(n, a, b, f) for (n, a, b, f) in out if all(F(float(x)) == x for r in a + b for x in r)]


def pairs(raw):
    arr = dec_res(raw["ok"])
    return list(zip(arr[0], arr[1])) if arr and len(arr) == 2 and arr[0] else []


# ------------------------------------------------------------------ triangle pairs
def orient(a, b, c):
    return (b[0] - a[0]) * (c[1] - a[1]) - (b[1] - a[1]) * (c[0] - a[0])


def clip_convex(subject, clip):
    """Sutherland-Hodgman in exact arithmetic: both polygons counter-clockwise, strict general position assumed"""
    out = list(subject)
    for i in range(len(clip)):
        a, b = clip[i], clip[(i + 1) % len(clip)]
        inp, out = out, []
        for j in range(len(inp)):
            p, q = inp[j], inp[(j + 1) % len(inp)]
            op, oq_ = orient(a, b, p), orient(a, b, q)
            if op >= 0:
                out.append(p)
            if (op > 0 and oq_ < 0) or (op < 0 and oq_ > 0):
                t = op / (op - oq_)
                out.append((p[0] + t * (q[0] - p[0]), p[1] + t * (q[1] - p[1])))
        if not out:
            break
    return out


def shoelace(poly):
    return sum(poly[i][0] * poly[(i + 1) % len(poly)][1] - poly[(i + 1) % len(poly)][0] * poly[i][1] for i in range(len(poly))) / 2


def tri_elevate(rows, d):
    """exact degree elevation of a triangle net (rows bottom-to-top by k, left-to-right by j)"""
    idx = lambda dd, j, k: sum(dd + 1 - kk for kk in range(k)) + j
    out = []
    for r in rows:
        new = []
        for k in range(d + 2):
            for j in range(d + 2 - k):
                i = d + 1 - j - k
                tot = F(0)
                if i > 0:
                    tot += i * r[idx(d, j, k)]
                if j > 0:
                    tot += j * r[idx(d, j - 1, k)]
                if k > 0:
                    tot += k * r[idx(d, j, k - 1)]
                new.append(tot / (d + 1))
        out.append(new)
    return out


def general_position(A, B):
    """no corner of one triangle on the line through a side of the other, no two corners sharing an abscissa or an ordinate
    (keeps the pair clear of every touching / tangent-box configuration: F2, F3)"""
    for P, Q in ((A, B), (B, A)):
        for v in P:
            for i in range(3):
                if orient(Q[i], Q[(i + 1) % 3], v) == 0:
                    return False
    pts = A + B
    return len({p[0] for p in pts}) == 6 and len({p[1] for p in pts}) == 6


def gen_tri_pairs(ctx, count):
    """degree-1 triangle pairs on the half-integer lattice in strict general position with the exact answer (convex clipping):
    ('empty',), ('inner', 0|1) or ('polygon', sides, area).  Families: random (mostly crossing), nested, disjoint with
    overlapping bounding boxes"""
    rng = ctx.rng
    out = []
    def rnd_tri(lo, hi):
        while True:
            t = [(F(rng.randint(lo, hi), 2), F(rng.randint(lo, hi), 2)) for _ in range(3)]
            a = orient(*t)
            if a < 0:
                t = [t[0], t[2], t[1]]
            if abs(a) >= 8:
                return t
    tries = 0
    base = 0
    while base < count and tries < 200 * count:
        tries += 1
        fam = ("random", "nested", "near-disjoint")[base % 3]
        if fam == "random":
            A, B = rnd_tri(-12, 12), rnd_tri(-12, 12)
        elif fam == "nested":
            A = rnd_tri(-12, 12)
            w = [F(rng.randint(2, 10), 16) for _ in range(3)]
            cen = lambda ws: (sum(x * p[0] for x, p in zip(ws, A)) / sum(ws), sum(x * p[1] for x, p in zip(ws, A)) / sum(ws))
            B = [cen([w[0] + F(3, 4), w[1], w[2]]), cen([w[0], w[1] + F(3, 4), w[2]]), cen([w[0], w[1], w[2] + F(3, 4)])]
            B = [(F(round(p[0] * 64), 64), F(round(p[1] * 64), 64)) for p in B]
            if orient(*B) <= 0:
                continue
            if rng.random() < 0.5:
                A, B = B, A
        else:
            A = rnd_tri(-12, 12)
            # a small triangle just outside the hypotenuse-like side A[1]A[2], inside the bounding box of A
            m = ((A[1][0] + A[2][0]) / 2, (A[1][1] + A[2][1]) / 2)
            nx, ny = A[2][1] - A[1][1], A[1][0] - A[2][0]          # outward normal of side 1 (counter-clockwise triangle)
            nrm = max(abs(nx), abs(ny))
            c0 = (m[0] + nx / nrm * F(3, 4), m[1] + ny / nrm * F(3, 4))
            c0 = (F(round(c0[0] * 16), 16), F(round(c0[1] * 16), 16))
            B = [c0, (c0[0] + F(5, 8), c0[1] + F(1, 16)), (c0[0] + F(3, 16), c0[1] + F(1, 2))]
            if rng.random() < 0.5:
                A, B = B, A
        if not general_position(A, B):
            continue
        inter = clip_convex(A, B)
        # dedupe
        poly = []
        for p in inter:
            if not poly or p != poly[-1]:
                poly.append(p)
        if len(poly) > 1 and poly[0] == poly[-1]:
            poly.pop()
        if len(poly) < 3:
            exp = ("empty",)
        else:
            area = shoelace(poly)
            if area == shoelace(A) and all(p in A for p in poly):
                exp = ("inner", 0)
            elif area == shoelace(B) and all(p in B for p in poly):
                exp = ("inner", 1)
            else:
                exp = ("polygon", len(poly), area)
        if fam == "nested" and exp[0] != "inner":
            continue
        if fam == "near-disjoint" and exp[0] != "empty":
            continue
        out.append({"A": A, "B": B, "family": fam, "expected": exp})
        base += 1
        # the same pair with the small triangle GENUINELY quadratic: its mid-edge control points are moved, all six control points
        # staying strictly inside the other (linear) triangle - then the curved triangle lies inside it (convex hull property) -
        # or strictly beyond the separating side; the exact answers "inner" / "empty" carry over
        if fam in ("nested", "near-disjoint") and exp[0] in ("inner", "empty"):
            small_is = 1 if (exp == ("inner", 1) or (exp[0] == "empty" and abs(orient(*B)) < abs(orient(*A)))) else 0
            S, L = (B, A) if small_is == 1 else (A, B)
            mid = lambda u, v, d: ((u[0] + v[0]) / 2 + d[0], (u[1] + v[1]) / 2 + d[1])
            span = max(abs(S[i][k] - S[j][k]) for i in range(3) for j in range(3) for k in (0, 1))
            bump = [(F(rng.randint(-2, 2), 32) * span, F(rng.randint(-2, 2), 32) * span) for _ in range(3)]
            net = [S[0], mid(S[0], S[1], bump[0]), S[1], mid(S[0], S[2], bump[1]), mid(S[1], S[2], bump[2]), S[2]]
            if not all(F(float(x)) == x for pt_ in net for x in pt_):
                continue
            if exp[0] == "inner":
                ok = all(orient(L[i], L[(i + 1) % 3], q) > 0 for q in net for i in range(3))
            else:
                ok = any(all(orient(L[i], L[(i + 1) % 3], q) < 0 for q in net) for i in range(3))
            # a valid (positively oriented everywhere) quadratic: small bumps relative to the size; certified by the Jacobian net signs
            if ok:
                rowsS = [[q[0] for q in net], [q[1] for q in net]]
                out.append({"A": A, "B": B, "family": "curved-" + fam, "expected": exp, "curved": small_is, "rows_curved": rowsS})
    return out


def tri_rows(t):
    return [[p[0] for p in t], [p[1] for p in t]]


def tri_presentations(A, B):
    """(name, nodes1, nodes2, which, area scale): `which` maps 0/1 (first/second of the ORIGINAL pair) to the position in the
    presentation.  Orientation-reversing maps are combined with a corner exchange so that every presented triangle is valid."""
    mp = lambda t, f: [f(p) for p in t]
    flip = lambda t: [t[0], t[2], t[1]]
    rA, rB = tri_rows(A), tri_rows(B)
    e = lambda rows, k: rows if k == 0 else e(tri_elevate(rows, {3: 1, 6: 2, 10: 3}[len(rows[0])]), k - 1)
    sh = lambda p: (p[0] + 3, p[1] - 5)
    out = [("identity", rA, rB, (0, 1), 1),
           ("swap arguments", rB, rA, (1, 0), 1),
           ("elevate first", e(rA, 1), rB, (0, 1), 1),
           ("elevate second", rA, e(rB, 1), (0, 1), 1),
           # (thirds are not binary64 numbers: the cubic net is rounded, which moves the well-separated geometry by rounding amounts)
           ("elevate first twice (rounded to binary64), second once, swapped", e(rB, 1), [[F(float(x)) for x in r] for r in e(rA, 2)], (1, 0), 1),
           ("relabel corners of the first", tri_rows([A[1], A[2], A[0]]), rB, (0, 1), 1),
           ("translate", tri_rows(mp(A, sh)), tri_rows(mp(B, sh)), (0, 1), 1),
           ("swap axes", tri_rows(flip(mp(A, lambda p: (p[1], p[0])))), tri_rows(flip(mp(B, lambda p: (p[1], p[0])))), (0, 1), 1),
           ("mirror x", tri_rows(flip(mp(A, lambda p: (-p[0], p[1])))), tri_rows(flip(mp(B, lambda p: (-p[0], p[1])))), (0, 1), 1),
           ("scale by 4", tri_rows(mp(A, lambda p: (4 * p[0], 4 * p[1]))), tri_rows(mp(B, lambda p: (4 * p[0], 4 * p[1]))), (0, 1), 16)]
    return [o for o in out if all(F(float(x)) == x for r in o[1] + o[2] for x in r)]


def curved_presentations(c):
    """presentations of a pair whose triangle number c['curved'] is a genuine quadratic: swap, elevation of the linear one,
    elevation of the quadratic one (cubic, rounded to binary64), translation, scaling"""
    e = lambda rows, k: rows if k == 0 else e(tri_elevate(rows, {3: 1, 6: 2, 10: 3}[len(rows[0])]), k - 1)
    r = [tri_rows(c["A"]), tri_rows(c["B"])]
    r[c["curved"]] = c["rows_curved"]
    rA, rB = r
    f = lambda rows, g: [[g(0, x) for x in rows[0]], [g(1, y) for y in rows[1]]]
    out = [("identity", rA, rB, (0, 1), 1),
           ("swap arguments", rB, rA, (1, 0), 1),
           ("elevate the linear one", *( (e(rA, 1), rB) if c["curved"] == 1 else (rA, e(rB, 1)) ), (0, 1), 1),
           ("elevate the quadratic one (rounded to binary64)", *( (rA, [[F(float(x)) for x in q] for q in e(rB, 1)]) if c["curved"] == 1
                                                                 else ([[F(float(x)) for x in q] for q in e(rA, 1)], rB) ), (0, 1), 1),
           ("translate", f(rA, lambda k, x: x + (3 if k == 0 else -5)), f(rB, lambda k, x: x + (3 if k == 0 else -5)), (0, 1), 1),
           ("scale by 4", f(rA, lambda k, x: 4 * x), f(rB, lambda k, x: 4 * x), (0, 1), 16)]
    return [o for o in out if all(F(float(x)) == x for q in o[1] + o[2] for x in q)]


def triangle_sweep(ctx):
    cases = gen_tri_pairs(ctx, 18 if ctx.quick() else 400)
    stats = {"cases": len(cases), "presentations": 0, "failures": 0,
             "families": {f: sum(1 for c in cases if c["family"] == f) for f in ("random", "nested", "near-disjoint", "curved-nested", "curved-near-disjoint")},
             "expected": {k: sum(1 for c in cases if c["expected"][0] == k) for k in ("empty", "inner", "polygon")},
             "kind": "metamorphic support sweep with an exact answer: degree-1 triangle pairs in strict general position, presented "
                     "swapped / elevated to degree 2 and 3 / with relabelled corners / translated / axes swapped / mirrored / scaled; "
                     "every presentation must give the exact region (kind, number of sides, area) - Triangle.intersect, both strategies' "
                     "default (GEOMETRIC), both configurations"}
    for cfg in ("pure", "speedup"):
        jobs, meta = [], []
        for ci, c in enumerate(cases):
            for pres in (curved_presentations(c) if "curved" in c else tri_presentations(c["A"], c["B"])):
                jobs.append({"op": "Triangle.intersect_summary", "args": [enc_arr(pres[1]), enc_arr(pres[2])]})
                meta.append((ci, pres))
        res = run_impl_parallel(cfg, jobs)
        for (ci, (name, n1, n2, which, scale)), r in zip(meta, res):
            stats["presentations"] += 1
            c = cases[ci]
            exp = c["expected"]
            v = None
            if "exc" in r:
                v = "raised %s: %s" % (r["exc"], r.get("msg", "")[:120])
            else:
                regs = dec_res(r["ok"])
                if exp[0] == "empty":
                    if regs:
                        v = "the triangles are disjoint, %d region(s) returned" % len(regs)
                elif exp[0] == "inner":
                    want = (n1, n2)[which[exp[1]]]
                    if len(regs) != 1 or regs[0][0] != "triangle" or [list(x) for x in regs[0][1]] != [list(x) for x in want]:
                        v = "one triangle lies inside the other: the inner triangle as presented must be returned"
                else:
                    if len(regs) != 1 or regs[0][0] != "polygon":
                        v = "expected one curved polygon with %d sides, got %s" % (exp[1], [x[0] for x in regs])
                    elif len(regs[0][2]) != exp[1]:
                        v = "expected %d sides, got %d" % (exp[1], len(regs[0][2]))
                    elif abs(regs[0][1] - exp[2] * scale) > F(1, 2 ** 30) * scale * max(1, exp[2]):
                        v = "area %.12g, exact %.12g" % (float(regs[0][1]), float(exp[2] * scale))
            if v:
                stats["failures"] += 1
                if stats["failures"] <= 4:
                    ctx.violations.append({"kind": "property-fails-on-implementation", "sweep": "triangle_presentations", "config": cfg,
                                           "op": "Triangle.intersect", "case": dict(c, presentation=name, nodes1=n1, nodes2=n2),
                                           "implementation_returned": r, "verdict": "presentation '%s' of a %s pair: %s" % (name, c["family"], v)})
    ctx.corr["sweep:triangle_presentations"] = stats
    if cases:
        ctx.samples.append({"sweep": "triangle_presentations", "case": cases[0]})


def run(ctx):
    prove(ctx, DEPS)
    triangle_sweep(ctx)
    n = 25 if ctx.quick() else 800
    cases = (ic.gen_line_curve(ctx, n) + ic.gen_curve_curve(ctx, 30 if ctx.quick() else 800)
             + [c for c in ic.gen_planted(ctx, n) if len(c["c1"][0]) <= 7 and len(c["c2"][0]) <= 7])
    stats = {"cases": len(cases), "presentations": 0, "failures": 0, "unclaimed": 0,
             "kind": "metamorphic support sweep: 8 re-presentations per pair, results relabelled back and compared"}
    for cfg in ("pure", "speedup"):
        jobs, meta = [], []
        for ci, c in enumerate(cases):
            for (name, a, b, f) in presentations(c["c1"], c["c2"]):
                jobs.append({"op": "Curve.intersect", "args": [enc_arr(a), enc_arr(b), "GEOMETRIC"]})
                meta.append((ci, name, f))
        res = run_impl_parallel(cfg, jobs)
        base = {}
        for (ci, name, f), r in zip(meta, res):
            stats["presentations"] += 1
            if name == "identity":
                base[ci] = r
        for (ci, name, f), r in zip(meta, res):
            b = base[ci]
            if name == "identity":
                continue
            c = cases[ci]
            if "exc" in b or "exc" in r:
                if ("exc" in b) != ("exc" in r) and c.get("expected") is not None:
                    # certified simple crossings: no presentation may raise
                    stats["failures"] += 1
                    ctx.violations.append({"kind": "property-fails-on-implementation", "sweep": "presentations", "config": cfg, "op": "Curve.intersect",
                                           "case": dict(c, presentation=name), "implementation_returned": {"identity": b, name: r},
                                           "verdict": "one presentation raised, the other returned"})
                else:
                    stats["unclaimed"] += 1
                continue
            p0 = sorted(pairs(b))
            p1 = sorted(f(s, t) for s, t in pairs(r))
            # only intersections that are well conditioned in at least one presentation are claimed: the certified ones
            if c.get("expected") is None:
                # planted pairs: compare only when both presentations found the same number (otherwise unclaimed: conditioning unknown)
                if len(p0) != len(p1):
                    stats["unclaimed"] += 1
                    continue
            def same_sets(u, v):
                # matching with tolerance (NOT a sorted zip: two crossings with nearly equal first parameter sort differently in
                # different presentations - false alarm of the thorough tier at PRNG seed 1)
                v = list(v)
                for x in u:
                    hit = next((y for y in v if abs(x[0] - y[0]) <= TOL and abs(x[1] - y[1]) <= TOL), None)
                    if hit is None:
                        return False
                    v.remove(hit)
                return not v
            if len(p0) != len(p1) or not same_sets(p0, p1):
                stats["failures"] += 1
                if stats["failures"] <= 4:
                    ctx.violations.append({"kind": "property-fails-on-implementation", "sweep": "presentations", "config": cfg, "op": "Curve.intersect",
                                           "case": dict(c, presentation=name), "implementation_returned": {"identity": b, name: r},
                                           "verdict": "presentation '%s' changes the answer beyond relabelling: %s vs %s" % (
                                               name, [tuple(map(float, p)) for p in p0], [tuple(map(float, p)) for p in p1])})
    ctx.corr["sweep:presentations"] = stats
    ctx.samples.append({"sweep": "presentations", "case": cases[0] if cases else {}})
    return finish(ctx, "PROVED (exact arithmetic): the kernels commute with the relabellings - reversal maps the parameter to 1-s, degree "
                  "elevation changes nothing (every degree), affine maps of the control net act on the point with the parameter unchanged, "
                  "swapping two segments swaps their parameters, the box classification is symmetric. NOT PROVED: that the CONVERGED "
                  "answers of the subdivision/Newton pipeline coincide across presentations (three asymmetries in the code: the 2^-10 "
                  "flip in full_newton, first/second handling when one side is linearized, the absolute 2^-26 linearization threshold): "
                  "metamorphic sweep over Sturm-certified line-curve pairs, resultant-certified curve-curve pairs (random, lattice, touching end points, planted) and planted pairs, 8 presentations, both configurations",
                  unproved=["equivariance of the converged answers (support sweep)", "splitting a curve yields the rescaled union (not swept)",
                            "triangle-triangle presentations of curved pairs with crossing edges (linear pairs presented up to degree 3 and linear-quadratic nested / disjoint pairs are swept against exact answers)"])
