"""C17 - Intersections do not depend on how the same geometry is presented (partial)."""
from fractions import Fraction

from common import enc_arr, dec_res, run_impl_parallel
from framework import prove, finish
from checks import isect_common as ic
import isect_oracle as io

DEPS = ["Props/C17.vo"]
F = Fraction
TOL = F(1, 2 ** 20)


def presentations(c1, c2):
    """(name, nodes1, nodes2, relabel) : relabel maps a result pair of the presentation back to (s, t) of the original"""
    rev = lambda c: [list(reversed(r)) for r in c]
    aff = lambda c, f: [[f(0, x) for x in c[0]], [f(1, y) for y in c[1]]]
    out = [("identity", c1, c2, lambda s, t: (s, t)),
           ("swap arguments", c2, c1, lambda s, t: (t, s)),
           ("reverse first", rev(c1), c2, lambda s, t: (1 - s, t)),
           ("reverse second", c1, rev(c2), lambda s, t: (s, 1 - t)),
           ("elevate first", io.elevate_rows(c1), c2, lambda s, t: (s, t)),
           ("translate", aff(c1, lambda k, x: x + (3 if k == 0 else -5)), aff(c2, lambda k, x: x + (3 if k == 0 else -5)), lambda s, t: (s, t)),
           ("swap axes", [c1[1], c1[0]], [c2[1], c2[0]], lambda s, t: (s, t)),
           ("mirror x", aff(c1, lambda k, x: -x if k == 0 else x), aff(c2, lambda k, x: -x if k == 0 else x), lambda s, t: (s, t)),
           ("scale by 4", aff(c1, lambda k, x: 4 * x), aff(c2, lambda k, x: 4 * x), lambda s, t: (s, t))]
    return [(n, a, b, f) for (n, a, b, f) in out if all(F(float(x)) == x for r in a + b for x in r)]


def pairs(raw):
    arr = dec_res(raw["ok"])
    return list(zip(arr[0], arr[1])) if arr and len(arr) == 2 and arr[0] else []


def run(ctx):
    prove(ctx, DEPS)
    n = 25 if ctx.quick() else 800
    cases = (ic.gen_line_curve(ctx, n) + ic.gen_curve_curve(ctx, 30 if ctx.quick() else 800)
             + [c for c in ic.gen_planted(ctx, n) if len(c["c1"][0]) <= 7 and len(c["c2"][0]) <= 7])
    stats = {"cases": len(cases), "presentations": 0, "failures": 0, "unclaimed": 0,
             "kind": "metamorphic support sweep: 8 re-presentations per pair, results relabelled back and compared"}
    for cfg in ("pure", "speedup"):
        jobs, meta = [], []
        for ci, c in enumerate(cases):
            for (name, a, b, f) in presentations(c["c1"], c["c2"]):
                jobs.append({"op": "Curve.intersect", "args": [enc_arr(a), enc_arr(b), "GEOMETRIC"]})
                meta.append((ci, name, f))
        res = run_impl_parallel(cfg, jobs)
        base = {}
        for (ci, name, f), r in zip(meta, res):
            stats["presentations"] += 1
            if name == "identity":
                base[ci] = r
        for (ci, name, f), r in zip(meta, res):
            b = base[ci]
            if name == "identity":
                continue
            c = cases[ci]
            if "exc" in b or "exc" in r:
                if ("exc" in b) != ("exc" in r) and c.get("expected") is not None:
                    # certified simple crossings: no presentation may raise
                    stats["failures"] += 1
                    ctx.violations.append({"kind": "property-fails-on-implementation", "sweep": "presentations", "config": cfg, "op": "Curve.intersect",
                                           "case": dict(c, presentation=name), "implementation_returned": {"identity": b, name: r},
                                           "verdict": "one presentation raised, the other returned"})
                else:
                    stats["unclaimed"] += 1
                continue
            p0 = sorted(pairs(b))
            p1 = sorted(f(s, t) for s, t in pairs(r))
            # only intersections that are well conditioned in at least one presentation are claimed: the certified ones
            if c.get("expected") is None:
                # planted pairs: compare only when both presentations found the same number (otherwise unclaimed: conditioning unknown)
                if len(p0) != len(p1):
                    stats["unclaimed"] += 1
                    continue
            if len(p0) != len(p1) or any(abs(x[0] - y[0]) > TOL or abs(x[1] - y[1]) > TOL for x, y in zip(p0, p1)):
                stats["failures"] += 1
                if stats["failures"] <= 4:
                    ctx.violations.append({"kind": "property-fails-on-implementation", "sweep": "presentations", "config": cfg, "op": "Curve.intersect",
                                           "case": dict(c, presentation=name), "implementation_returned": {"identity": b, name: r},
                                           "verdict": "presentation '%s' changes the answer beyond relabelling: %s vs %s" % (
                                               name, [tuple(map(float, p)) for p in p0], [tuple(map(float, p)) for p in p1])})
    ctx.corr["sweep:presentations"] = stats
    ctx.samples.append({"sweep": "presentations", "case": cases[0] if cases else {}})
    return finish(ctx, "PROVED (exact arithmetic): the kernels commute with the relabellings - reversal maps the parameter to 1-s, degree "
                  "elevation changes nothing (every degree), affine maps of the control net act on the point with the parameter unchanged, "
                  "swapping two segments swaps their parameters, the box classification is symmetric. NOT PROVED: that the CONVERGED "
                  "answers of the subdivision/Newton pipeline coincide across presentations (three asymmetries in the code: the 2^-10 "
                  "flip in full_newton, first/second handling when one side is linearized, the absolute 2^-26 linearization threshold): "
                  "metamorphic sweep over Sturm-certified line-curve pairs, resultant-certified curve-curve pairs (random, lattice, touching end points, planted) and planted pairs, 8 presentations, both configurations",
                  unproved=["equivariance of the converged answers (support sweep)", "splitting a curve yields the rescaled union (not swept)",
                            "triangle-triangle presentations (not swept)"])
