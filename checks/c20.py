"""C20 - Overlapping curves are reported as a shared segment, never dropped (partial)."""
from fractions import Fraction

from common import enc_arr, dec_res
from framework import prove, sweep, finish
from checks import isect_common as ic
import oracle_q as oq
import isect_oracle as io

DEPS = ["Props/C20.vo", "Corr/C02.vo"]
F = Fraction
TOL = F(1, 2 ** 30)


def gen_overlaps(ctx):
    rng = ctx.rng
    out = []
    tries = 0
    want = 60 if ctx.quick() else 1500
    brk = [F(k, 8) for k in range(9)]
    while len(out) < want and tries < 50 * want:
        tries += 1
        n = rng.randint(1, 5)
        parent = [[F(rng.randint(-8, 8), 2) for _ in range(n + 1)] for _ in range(2)]
        if not io.hodograph_halfplane(parent):
            continue
        a, b = sorted(rng.sample(brk, 2))
        c, d = sorted(rng.sample(brk, 2))
        rev = rng.random() < 0.4
        e1, e2 = rng.choice([0, 0, 1]), rng.choice([0, 0, 1])
        c1 = io.elevate_rows(io.specialize_rows(parent, a, b), e1)
        c2 = io.elevate_rows(io.specialize_rows(parent, d, c) if rev else io.specialize_rows(parent, c, d), e2)
        if not all(F(float(x)) == x for r in c1 + c2 for x in r):
            continue
        lo, hi = max(a, c), min(b, d)
        out.append({"c1": c1, "c2": c2, "a": a, "b": b, "c": c, "d": d, "rev": rev, "lo": lo, "hi": hi, "n": n,
                    "kind": "overlap" if lo < hi else ("touch" if lo == hi else "disjoint")})
    # directed: arcs that merely TOUCH, in all four end-to-end orientations, presented with DIFFERENT degrees (one side elevated once
    # or twice): the end-point check of tangent boxes reads the last node of each arc (seed c20-5 used the wrong node count)
    made, tries = 0, 0
    while made < (12 if ctx.quick() else 200) and tries < 4000:
        tries += 1
        n = rng.randint(2, 4)
        parent = [[F(rng.randint(-8, 8), 2) for _ in range(n + 1)] for _ in range(2)]
        if not io.hodograph_halfplane(parent):
            continue
        a, m, d = F(rng.randint(0, 2), 8), F(rng.randint(3, 5), 8), F(rng.randint(6, 8), 8)
        first_low = rng.random() < 0.5
        (p, q), (c, dd) = ((a, m), (m, d)) if first_low else ((m, d), (a, m))
        rev = rng.random() < 0.5
        e1, e2 = rng.choice([(0, 1), (1, 0), (0, 2), (2, 0), (1, 2)])
        c1 = io.elevate_rows(io.specialize_rows(parent, p, q), e1)
        c2 = io.elevate_rows(io.specialize_rows(parent, dd, c) if rev else io.specialize_rows(parent, c, dd), e2)
        if not all(F(float(x)) == x for r in c1 + c2 for x in r):
            continue
        made += 1
        out.append({"c1": c1, "c2": c2, "a": p, "b": q, "c": c, "d": dd, "rev": rev, "lo": max(p, c), "hi": min(q, dd), "n": n, "kind": "touch"})
    return out


def expected_cols(c):
    lo, hi, a, b, cc, d = c["lo"], c["hi"], c["a"], c["b"], c["c"], c["d"]
    s = lambda u: (u - a) / (b - a)
    t = (lambda u: (d - u) / (d - cc)) if c["rev"] else (lambda u: (u - cc) / (d - cc))
    return [(s(lo), t(lo)), (s(hi), t(hi))]


def judge(c, op, cfg, raw):
    if "exc" in raw:
        if raw["exc"] == "NotImplementedError":
            return None                     # documented refusal
        return "raised %s: %s" % (raw["exc"], raw.get("msg"))
    arr, flag = dec_res(raw["ok"])
    cols = list(zip(arr[0], arr[1])) if arr and len(arr) == 2 else []
    if c["kind"] == "overlap":
        if not flag or len(cols) != 2:
            return "shared arc not reported as a flagged two-column segment (flag=%s, %d columns)" % (flag, len(cols))
        exp = expected_cols(c)
        got = sorted(cols)
        if any(abs(g[0] - e[0]) > TOL or abs(g[1] - e[1]) > TOL for g, e in zip(got, sorted(exp))):
            return "end points of the shared arc are wrong: got %s expected %s" % ([tuple(map(float, g)) for g in cols], [tuple(map(float, e)) for e in exp])
        if cols[0][0] > cols[1][0]:
            return "ORDER: the two end points are not ordered along the first curve (s decreasing): %s" % ([tuple(map(float, g)) for g in cols],)
        return None
    if c["kind"] == "touch":
        if flag:
            return "touching arcs flagged as coincident"
        if len(cols) != 1:
            # a parent curve may also genuinely cross itself elsewhere: certified injective, so no
            return "touching arcs: expected exactly the one common point, got %d columns" % len(cols)
        e = expected_cols(c)[0]
        if abs(cols[0][0] - e[0]) > TOL or abs(cols[0][1] - e[1]) > TOL:
            return "touching point wrong"
        return None
    if flag or cols:
        return "disjoint sub-arcs of an injective curve reported an intersection"
    return None


def straight(c):
    """every control point of both curves lies on one straight line (exact)"""
    pts = list(zip(*c["c1"])) + list(zip(*c["c2"]))
    p0 = pts[0]
    p1 = next((p for p in pts if p != p0), None)
    if p1 is None:
        return False
    return all((p1[0] - p0[0]) * (p[1] - p0[1]) - (p1[1] - p0[1]) * (p[0] - p0[0]) == 0 for p in pts)


def known(c, op, cfg, raw):
    v = judge(c, op, cfg, raw)
    if v and c["n"] >= 2 and straight(c) and "ok" in raw:
        # a straight segment presented with degree >= 2 (non-uniform speed): the curved pipeline handles it as curves, the
        # collinear special case of check_lines is never reached
        arr, flag = dec_res(raw["ok"])
        cols = list(zip(arr[0], arr[1])) if arr and len(arr) == 2 else []
        genuine = all(io.residual(c["c1"], c["c2"], s_, t_) <= F(1, 2 ** 30) * max(io.net_size(c["c1"]), F(1)) for s_, t_ in cols)
        if genuine and c["kind"] in ("overlap", "touch"):
            return ("F17 two pieces of one STRAIGHT segment that is presented as a curve of degree >= 2 with non-uniform speed: a shared piece is "
                    "reported as isolated unflagged point(s), a single touching point as a flagged zero-width segment (everything reported is a genuine common point)")
    if v and v.startswith("ORDER") and c.get("rev"):
        return "F10 opposite-direction overlap: the two end points are reported in second-curve order (first-curve parameter decreasing)"
    if v and v.startswith("touching arcs flagged") and c["n"] == 1 and "ok" in raw:   # straight segments (possibly degree-elevated)
        arr, flag = dec_res(raw["ok"])
        if flag and len(arr[0]) == 2 and arr[0][0] == arr[0][1] and arr[1][0] == arr[1][1]:
            return "F13 two straight segments of one line touching at a single point: reported as a flagged zero-width shared segment (two identical columns) instead of one unflagged point"
    return None


def known_lines(c, op, cfg, raw):
    return None


def run(ctx):
    prove(ctx, DEPS)
    ic.correspond_lines(ctx, name="collinear_lattice_segments", n_quick=300, n_thorough=20000)
    cases = gen_overlaps(ctx)
    # pinned instance of known finding F17 (a straight segment presented as a quadratic with non-uniform speed)
    cases.insert(0, {"c1": [[F(159, 64), F(27, 16), F(3, 4)], [F(-3, 2)] * 3], "c2": [[F(-81, 64), F(57, 64), F(159, 64)], [F(-3, 2)] * 3],
                     "a": F(1, 8), "b": F(1, 2), "c": F(1, 8), "d": F(7, 8), "rev": True, "lo": F(1, 8), "hi": F(1, 2), "n": 2, "kind": "overlap"})
    a = lambda c: [enc_arr(c["c1"]), enc_arr(c["c2"])]
    sweep(ctx, "overlapping_subarcs", cases, [("hazmat.all_intersections", a), ("shim.all_intersections", a)], judge, known=known)
    st = ctx.corr.get("sweep:overlapping_subarcs", {})
    return finish(ctx, "PROVED: the collinear-segment case completely (regenerated parallel_lines_parameters / check_lines over Q: "
                  "never dropped, end points of the shared part in both parametrisations, flag), and the totality of the case split of "
                  "coincident_parameters with locate_point / specialize_curve / vector_close as oracles. NOT PROVED: that locate_point "
                  "finds the real end points (the refusals) and the pruning that leads to the coincidence test: support sweep on "
                  "overlapping sub-arcs of certified injective parent curves. The proved order is the SECOND curve's (finding F10)",
                  unproved=["success of locate_point on the real end points", "the candidate-explosion route into coincident_parameters",
                            "algebraic strategy refusing overlapping input (swept in C15)"])
