"""C01 - Curve evaluation equals the Bernstein definition."""
from fractions import Fraction
from math import comb

from common import enc_arr, enc_vec, enc_f, coq_q, coq_list, dyadic, dec_res, run_impl
from framework import prove, correspond, sweep, finish
import oracle_q as oq

DEPS = ["Props/C01.vo", "Corr/C01.vo"]
HEADER = "From Coq Require Import List QArith.\nFrom BZ Require Import Corr.Common Corr.C01.\nImport ListNotations.\nOpen Scope Q_scope.\n"
U = Fraction(1, 2 ** 53)


def nbits(fr):
    return abs(Fraction(fr).numerator).bit_length()


def exact_ok(n, vb, l1, l2):
    """conservative bit budget: every intermediate of VS / de Casteljau is a binary64 number"""
    if (l1, l2) in ((1, 0), (0, 1)):
        return True
    g = max(nbits(l1), nbits(l2), 1)
    return vb + n * (g + 1) + comb(n, n // 2).bit_length() + 2 <= 53


def PROVED_K(n):
    """(1+u)^(3n+2) - 1 <= (3n+3) u for u = 2^-53 and n <= 10^6: the bound of theorem C01_rounding_error_bound"""
    return 3 * n + 3


def tol_for(n, row, l1, l2, exact):
    if exact:
        return Fraction(0)
    return PROVED_K(n) * U * oq.bernstein2_abs(row, l1, l2)


def gen_cases(ctx):
    rng = ctx.rng
    cases = []
    degrees = list(range(1, 81))
    extra = [53, 54, 55, 56, 57] * (1 if ctx.quick() else 4)
    reps = 1 if ctx.quick() else 6
    for n in degrees * reps + extra:
        dim = rng.randint(1, 4)
        hi = n > 12
        vb = rng.randint(1, 6 if hi else 14)
        kind = rng.choice(["unit", "random", "random"])
        rows = []
        for _ in range(dim):
            if kind == "unit":
                j = rng.randint(0, n)
                rows.append([Fraction(1 if i == j else 0) for i in range(n + 1)])
            else:
                rows.append([dyadic(rng, vb, 6) for _ in range(n + 1)])
        q = rng.choice([0, 1, 2, 3, 6]) if n <= 12 else rng.choice([1, 2, 3])
        ss = [Fraction(0), Fraction(1)]
        for _ in range(rng.randint(1, 3)):
            ss.append(Fraction(rng.randint(-(2 ** q), 2 * 2 ** q), 2 ** q))
        rng.shuffle(ss)
        # barycentric pairs that need not sum to one
        l1s = [Fraction(rng.randint(-4, 8), 4) for _ in range(2)] + [Fraction(1), Fraction(0)]
        l2s = [Fraction(rng.randint(-4, 8), 4) for _ in range(2)] + [Fraction(0), Fraction(1)]
        cases.append({"n": n, "rows": rows, "ss": ss, "l1s": l1s, "l2s": l2s, "vb": vb + 6})
    return cases


def tols_multi(c, row):
    return [tol_for(c["n"], row, 1 - s, s, exact_ok(c["n"], c["vb"], 1 - s, s)) for s in c["ss"]]


def tols_bary(c, row):
    return [tol_for(c["n"], row, a, b, exact_ok(c["n"], c["vb"], a, b)) for a, b in zip(c["l1s"], c["l2s"])]


def rows_out(res, c):
    return [("row", i, res[i]) for i in range(len(c["rows"]))]


def coq_multi(c, obs):
    if obs[0][0] in ("exc", "malformed"):
        return None
    return ["(%s, %s, %s, %s)" % (coq_list(c["rows"][i]), coq_list(c["ss"]), coq_list(out), coq_list(tols_multi(c, c["rows"][i])))
            for (_k, i, out) in obs]


def coq_bary(c, obs):
    if obs[0][0] in ("exc", "malformed"):
        return None
    return ["(%s, %s, %s, %s, %s)" % (coq_list(c["rows"][i]), coq_list(c["l1s"]), coq_list(c["l2s"]), coq_list(out),
                                      coq_list(tols_bary(c, c["rows"][i]))) for (_k, i, out) in obs]


def judge_points(c, pairs, out):
    """the property statement itself, on the implementation's output"""
    n = c["n"]
    for i, row in enumerate(c["rows"]):
        for k, (l1, l2) in enumerate(pairs):
            want = oq.bernstein2(row, l1, l2)
            allow = PROVED_K(n) * U * oq.bernstein2_abs(row, l1, l2)
            got = out[i][k]
            if not isinstance(got, Fraction):
                return "non-finite value %r at row %d parameter %d" % (got, i, k)
            if (l1, l2) == (1, 0) and got != row[0]:
                return "s=0 does not return the first control point exactly: %s vs %s" % (float(got), float(row[0]))
            if (l1, l2) == (0, 1) and got != row[-1]:
                return "s=1 does not return the last control point exactly: %s vs %s" % (float(got), float(row[-1]))
            if abs(got - want) > allow:
                return "row %d, (l1,l2)=(%s,%s): got %r, Bernstein definition %r, allowance %r" % (
                    i, l1, l2, float(got), float(want), float(allow))
            if l1 + l2 == 1 and 0 <= l2 <= 1:
                lo, hi = min(row), max(row)
                if got < lo - allow or got > hi + allow:
                    return "point outside the bounding box of the control points"
    return None


def judge_multi(c, op, cfg, raw):
    if "exc" in raw:
        return "raised %s: %s" % (raw["exc"], raw.get("msg"))
    return judge_points(c, [(1 - s, s) for s in c["ss"]], dec_res(raw["ok"]))


def judge_bary(c, op, cfg, raw):
    if "exc" in raw:
        return "raised %s: %s" % (raw["exc"], raw.get("msg"))
    return judge_points(c, list(zip(c["l1s"], c["l2s"])), dec_res(raw["ok"]))


def search(ctx):
    grid = [Fraction(0), Fraction(1), Fraction(1, 2), Fraction(1, 4), Fraction(-1), Fraction(2), Fraction(3, 8), Fraction(7, 8)]
    for cfg in ("pure", "speedup"):
        jobs, meta = [], []
        for n in list(range(1, 13)) + [20, 30, 40, 50, 53, 54, 55, 56, 57, 60, 70, 80]:
            rows = [[Fraction(1 if i == j else 0) for i in range(n + 1)] for j in range(n + 1)]
            c = {"n": n, "rows": rows, "ss": grid}
            jobs.append({"op": "Curve.evaluate_multi", "args": [enc_arr(rows), enc_vec(grid)]})
            meta.append(c)
        res = run_impl(cfg, jobs)
        for c, raw in zip(meta, res):
            v = judge_multi(c, "Curve.evaluate_multi", cfg, raw)
            if v:
                return {"config": cfg, "op": "Curve.evaluate_multi", "case": c, "implementation_returned": raw, "verdict": v}
    return None


def run(ctx):
    prove(ctx, DEPS)
    cases = gen_cases(ctx)
    nontriv = lambda c: any(len(set(r)) > 1 for r in c["rows"]) and any(s not in (0, 1) for s in c["ss"])
    a_multi = lambda c: [enc_arr(c["rows"]), enc_vec(c["ss"])]
    a_bary = lambda c: [enc_arr(c["rows"]), enc_vec(c["l1s"]), enc_vec(c["l2s"])]
    correspond(ctx, "evaluate_multi", cases,
               [("Curve.evaluate_multi", a_multi, rows_out), ("shim.evaluate_multi", a_multi, rows_out),
                ("hazmat.evaluate_multi", a_multi, rows_out)],
               coq_multi, HEADER, "chk_eval", judge=judge_multi, nontrivial=nontriv)
    correspond(ctx, "evaluate_multi_barycentric", cases,
               [("shim.evaluate_multi_barycentric", a_bary, rows_out), ("hazmat.evaluate_multi_barycentric", a_bary, rows_out)],
               coq_bary, HEADER, "chk_eval_bary", judge=judge_bary, nontrivial=nontriv)
    # full-mantissa control points of very different magnitude (m * 2^e, 53-bit m, e in -30..30) at the end points, next to them
    # and at 53-bit parameters, low degrees several times each: a special-case path that is exact on few-bit data (seed c01-5:
    # v0 + s (v1 - v0) for lines) is judged here with the proved allowance; end points must be the end nodes bit for bit
    wide = []
    rng = ctx.rng
    for n in [1, 1, 1, 2, 2, 3, 4, 5, 6, 8, 12] * (1 if ctx.quick() else 12):
        dim = rng.randint(1, 3)
        rows = [[Fraction(rng.choice([-1, 1]) * rng.randint(2 ** 52, 2 ** 53 - 1)) * Fraction(2) ** rng.randint(-83, -23) for _ in range(n + 1)]
                for _ in range(dim)]
        ss = [Fraction(1), Fraction(0), 1 - Fraction(1, 2 ** 30), Fraction(rng.randint(2 ** 52, 2 ** 53 - 1), 2 ** 53), Fraction(1, 2 ** 40)]
        wide.append({"n": n, "rows": rows, "ss": ss, "l1s": [], "l2s": [], "vb": 60})
    correspond(ctx, "evaluate_multi_wide_range", wide,
               [("Curve.evaluate_multi", a_multi, rows_out), ("shim.evaluate_multi", a_multi, rows_out),
                ("hazmat.evaluate_multi", a_multi, rows_out)],
               coq_multi, HEADER, "chk_eval", judge=judge_multi, nontrivial=nontriv)
    # long parameter vectors (130 parameters k/128 and a few more; counts not divisible by 64) at degrees on both sides of the switch:
    # every column must belong to ITS parameter (seed c01-6 evaluated the trailing block of a blocked loop at the first parameters)
    longv = []
    for n in (3, 54, 55, 60):
        rows = [[dyadic(rng, 5, 4) for _ in range(n + 1)] for _ in range(2)]
        ss = [Fraction(k, 128) for k in range(129)] + [Fraction(1, 3).limit_denominator(2 ** 20)]
        longv.append({"n": n, "rows": rows, "ss": [Fraction(float(x)) for x in ss], "l1s": [], "l2s": [], "vb": 60})
    # (support sweep with the exact rational judge and the proved allowance: 130 parameters at degree 60 are too many big rationals
    # for one vm_compute)
    sweep(ctx, "evaluate_multi_long_parameter_vectors", longv,
          [("Curve.evaluate_multi", a_multi), ("shim.evaluate_multi", a_multi), ("hazmat.evaluate_multi", a_multi)], judge_multi)
    # the two algorithms on their own, on both sides of the switch (pure Python only: they have no compiled twin)
    sub = [c for c in cases if c["n"] <= 60][: (30 if ctx.quick() else 200)]
    correspond(ctx, "evaluate_multi_vs", sub, [("hazmat.evaluate_multi_vs", a_bary, rows_out)],
               coq_bary, HEADER, "chk_eval_vs", judge=judge_bary, configs=("pure",), nontrivial=nontriv)
    correspond(ctx, "evaluate_multi_de_casteljau", sub, [("hazmat.evaluate_multi_de_casteljau", a_bary, rows_out)],
               coq_bary, HEADER, "chk_eval_dc", judge=judge_bary, configs=("pure",), nontrivial=nontriv)
    # single-parameter public entry point
    singles = [dict(c, ss=[s]) for c in cases[:: (4 if ctx.quick() else 1)] for s in c["ss"][:2]]
    correspond(ctx, "Curve_evaluate_single", singles,
               [("Curve.evaluate", lambda c: [enc_arr(c["rows"]), enc_f(c["ss"][0])], rows_out)],
               coq_multi, HEADER, "chk_eval", judge=judge_multi, nontrivial=nontriv)
    return finish(ctx, "theorems are about the Gallina model of evaluate_multi_{vs,de_casteljau,barycentric}; the literal 55 "
                  "is read from the source; the Fortran evaluator is tied by correspondence only; the rounding bound "
                  "((1+u)^(3n+2)-1) sum|b_j||v_j| is PROVED for the model executed in any arithmetic with relative error u per operation "
                  "(standard model) that represents integers with odd part < 2^53 exactly; the bound stream uses exactly this allowance; "
                  "overflow/underflow/NaN out of scope",
                  search=search,
                  unproved=["the rounding theorem is instantiated at Flocq FLX(53) round-to-nearest-even; the bounded exponent range (overflow / underflow / NaN) is outside it",
                            "the Fortran evaluator is a different text: the proved allowance is validated on it by the bound stream, not proved for it"])
