"""Generators, correspondences and support sweeps shared by the curve-curve intersection properties (C02, C03, C20, C16)."""
from fractions import Fraction

from common import enc_arr, coq_q, coq_val, dyadic, dec_res
from framework import correspond, sweep
import oracle_q as oq
import isect_oracle as io

F = Fraction
HEADER_LINES = ("From Coq Require Import List QArith String.\nFrom BZ Require Import Base.PyVal Corr.Common Corr.C02.\n"
                "Import ListNotations.\nOpen Scope Q_scope.\nOpen Scope string_scope.\n")


def lattice_segments(rng, n, k=5):
    pts = [(F(i), F(j)) for i in range(k) for j in range(k)]
    segs = [(a, b) for a in pts for b in pts if a != b]
    out = []
    for _ in range(n):
        s1, s2 = rng.choice(segs), rng.choice(segs)
        if rng.random() < 0.5:      # collinear / parallel / touching families
            d = (s1[1][0] - s1[0][0], s1[1][1] - s1[0][1])
            kk = rng.choice([F(-2), F(-1), F(-1, 2), F(1, 2), F(1), F(2)])
            base = rng.choice([F(-1), F(-1, 2), F(0), F(1, 2), F(1), F(3, 2)])
            o = (s1[0][0] + base * d[0], s1[0][1] + base * d[1])
            if rng.random() < 0.2:
                o = (o[0] + 1, o[1])
            s2 = (o, (o[0] + kk * d[0], o[1] + kk * d[1]))
        out.append({"l1": s1, "l2": s2})
    return out


def line_rows(seg):
    (a, b) = seg
    return [[a[0], b[0]], [a[1], b[1]]]


def correspond_lines(ctx, name="lines_all_intersections", n_quick=300, n_thorough=6000):
    """all_intersections on two straight segments against the REGENERATED check_lines (both configurations: the
    compiled twin of parallel_lines_parameters / segment_intersection is only reachable this way)"""
    cases = lattice_segments(ctx.rng, n_quick if ctx.quick() else n_thorough)

    def out(res, c):
        return [("val", res)]

    def coq(c, obs):
        if obs[0][0] in ("exc", "malformed"):
            return None
        (a, b), (p, q) = c["l1"], c["l2"]
        return ["((%s, %s, %s, %s), (%s, %s, %s, %s), %s, %s)" % (coq_q(a[0]), coq_q(a[1]), coq_q(b[0]), coq_q(b[1]),
                                                               coq_q(p[0]), coq_q(p[1]), coq_q(q[0]), coq_q(q[1]),
                                                               coq_val(obs[0][1]), coq_q(F(1, 2 ** 48)))]

    def judge(c, op, cfg, raw):
        """exact answer for two segments"""
        if "exc" in raw:
            return "raised %s: %s" % (raw["exc"], raw.get("msg"))
        arr, flag = dec_res(raw["ok"])
        l1, l2 = line_rows(c["l1"]), line_rows(c["l2"])
        ss, ts = (arr[0], arr[1]) if arr and arr[0] is not None and len(arr) == 2 else ([], [])
        for s, t in zip(ss, ts):
            if not (0 <= s <= 1 and 0 <= t <= 1):
                return "parameter outside [0,1]: (%s, %s)" % (float(s), float(t))
            if io.residual(l1, l2, s, t) > F(1, 2 ** 40) * max(io.net_size(l1), io.net_size(l2)):
                return "reported pair (%s, %s) is not a common point" % (float(s), float(t))
        # completeness against the exact description
        (a, b), (p, q) = c["l1"], c["l2"]
        d0 = (b[0] - a[0], b[1] - a[1]); d1 = (q[0] - p[0], q[1] - p[1])
        cr = d0[0] * d1[1] - d0[1] * d1[0]
        if cr != 0:
            s = ((p[0] - a[0]) * d1[1] - (p[1] - a[1]) * d1[0]) / cr
            t = ((p[0] - a[0]) * d0[1] - (p[1] - a[1]) * d0[0]) / cr
            want = 1 if (0 <= s <= 1 and 0 <= t <= 1) else 0
            if len(ss) != want or flag:
                return "two non-parallel segments: expected %d crossing, got %d (coincident=%s)" % (want, len(ss), flag)
        else:
            col = (p[0] - a[0]) * d0[1] - (p[1] - a[1]) * d0[0] == 0
            n2 = d0[0] ** 2 + d0[1] ** 2
            sa = ((p[0] - a[0]) * d0[0] + (p[1] - a[1]) * d0[1]) / n2
            sb = ((q[0] - a[0]) * d0[0] + (q[1] - a[1]) * d0[1]) / n2
            overlap = col and max(min(sa, sb), 0) <= min(max(sa, sb), 1)
            if overlap and not (flag and len(ss) == 2):
                return "collinear segments sharing a part were not reported as a flagged shared segment"
            if not overlap and (flag or len(ss) != 0):
                return "parallel disjoint segments reported an intersection"
        return None
    a = lambda c: [enc_arr(line_rows(c["l1"])), enc_arr(line_rows(c["l2"]))]
    correspond(ctx, name, cases, [("hazmat.all_intersections", a, out), ("shim.all_intersections", a, out)],
               coq, HEADER_LINES, "chk_lines", judge=judge, nontrivial=lambda c: True)


# ---------------------------------------------------------------------------- curve pairs for the sweeps


def rand_curve(rng, n, bits=5, pb=2):
    return [[dyadic(rng, bits, pb) for _ in range(n + 1)] for _ in range(2)]


def gen_line_curve(ctx, count):
    """line vs curve pairs whose intersections are certified by exact Sturm isolation"""
    rng = ctx.rng
    out = []
    tries = 0
    while len(out) < count and tries < 40 * count:
        tries += 1
        n = rng.randint(2, 6)
        curve = rand_curve(rng, n, 4, 1)
        kind = rng.choice(["random", "through-end", "random", "axis"])
        if kind == "axis":
            # axis-parallel segment in one of the four directions (exactly zero tangent component, either sign of the other)
            lo, hi = sorted((dyadic(rng, 4, 1), dyadic(rng, 4, 1)))
            c0 = dyadic(rng, 4, 1)
            if lo == hi:
                continue
            ends = (lo, hi) if rng.random() < 0.5 else (hi, lo)
            line = [[ends[0], ends[1]], [c0, c0]] if rng.random() < 0.5 else [[c0, c0], [ends[0], ends[1]]]
        elif kind == "through-end":
            p = (curve[0][0], curve[1][0]) if rng.random() < 0.5 else (curve[0][-1], curve[1][-1])
            d = (F(rng.randint(-6, 6), 2), F(rng.randint(-6, 6), 2))
            if d == (0, 0):
                continue
            line = [[p[0], p[0] + d[0]], [p[1], p[1] + d[1]]] if rng.random() < 0.5 else [[p[0] - d[0], p[0]], [p[1] - d[1], p[1]]]
        else:
            line = [[dyadic(rng, 4, 1), dyadic(rng, 4, 1)], [dyadic(rng, 4, 1), dyadic(rng, 4, 1)]]
        if line[0][0] == line[0][1] and line[1][0] == line[1][1]:
            continue
        exp = io.line_curve(line, curve)
        if exp is None:
            continue
        swap = rng.random() < 0.5
        out.append({"c1": curve if swap else line, "c2": line if swap else curve,
                    "expected": [(s, t) for (t, s) in exp] if swap else list(exp), "kind": "line-curve"})
    return out


def _lc_job(pair):
    return io.line_curve(pair[0], pair[1])


def gen_line_curve_boxes(ctx, count):
    """segments placed relative to the control box of the curve: END (or start) strictly inside the box, the other end outside on
    each of the four sides with its other coordinate inside or outside the box's range; both directions; certified by Sturm
    isolation in a process pool.  (The box-versus-segment test of the pipeline is only reachable this way in the compiled code.)"""
    import multiprocessing as mp
    rng = ctx.rng
    cand = []
    for _ in range(3 * count):
        n = rng.randint(2, 5)
        curve = rand_curve(rng, n, 4, 1)
        l, r_ = min(curve[0]), max(curve[0])
        b, t = min(curve[1]), max(curve[1])
        if l == r_ or b == t:
            continue
        inside = (l + (r_ - l) * F(rng.randint(1, 7), 8), b + (t - b) * F(rng.randint(1, 7), 8))
        side = rng.choice(["left", "right", "below", "above"])
        off = F(rng.randint(1, 8), 4)
        span = lambda lo, hi: rng.choice([lo - F(rng.randint(1, 6), 4), lo + (hi - lo) * F(rng.randint(0, 8), 8), hi + F(rng.randint(1, 6), 4)])
        if side == "left":
            outside = (l - off, span(b, t))
        elif side == "right":
            outside = (r_ + off, span(b, t))
        elif side == "below":
            outside = (span(l, r_), b - off)
        else:
            outside = (span(l, r_), t + off)
        p0, p1 = (outside, inside) if rng.random() < 0.5 else (inside, outside)
        line = [[p0[0], p1[0]], [p0[1], p1[1]]]
        if not all(F(float(x)) == x for r in line for x in r):
            continue
        cand.append((line, curve, side))
    with mp.Pool(16) as pool:
        res = pool.map(_lc_job, [(a, b) for a, b, _ in cand], chunksize=8)
    out = []
    for (line, curve, side), exp in zip(cand, res):
        if exp is None or len(out) >= count:
            continue
        swap = rng.random() < 0.5
        out.append({"c1": curve if swap else line, "c2": line if swap else curve,
                    "expected": [(s, t) for (t, s) in exp] if swap else list(exp), "kind": "line-curve:box-" + side})
    return out


def gen_planted(ctx, count):
    """general degree pairs with a planted crossing B1(a) = B2(b) (a, b dyadic): at least that one must be real"""
    rng = ctx.rng
    out = []
    for _ in range(count):
        n1, n2 = rng.randint(1, 8), rng.randint(1, 8)
        c1, c2 = rand_curve(rng, n1), rand_curve(rng, n2)
        a, b = F(rng.randint(1, 7), 8), F(rng.randint(1, 7), 8)
        # move c2 so that B2(b) = B1(a)
        dx = oq.bernstein(c1[0], a) - oq.bernstein(c2[0], b)
        dy = oq.bernstein(c1[1], a) - oq.bernstein(c2[1], b)
        c2 = [[x + dx for x in c2[0]], [y + dy for y in c2[1]]]
        if not all(F(float(x)) == x for r in c2 for x in r):
            continue
        out.append({"c1": c1, "c2": c2, "planted": (a, b), "kind": "planted"})
    return out


def gen_shared_ends(ctx, count):
    """lattice nets sharing an end point / with touching boxes / repeated nodes"""
    rng = ctx.rng
    out = []
    for _ in range(count):
        n1, n2 = rng.randint(1, 5), rng.randint(1, 5)
        c1 = [[F(rng.randint(0, 4)) for _ in range(n1 + 1)] for _ in range(2)]
        c2 = [[F(rng.randint(0, 4)) for _ in range(n2 + 1)] for _ in range(2)]
        i, j = rng.choice([0, -1]), rng.choice([0, -1])
        c2[0][j], c2[1][j] = c1[0][i], c1[1][i]
        if len(set(zip(*c1))) < 2 or len(set(zip(*c2))) < 2:
            continue
        out.append({"c1": c1, "c2": c2, "kind": "shared-end"})
    return out


def _cc_job(pair):
    return io.curve_curve(pair[0], pair[1])


def gen_curve_curve(ctx, count, max_deg=4):
    """general curve-curve pairs (both degrees >= 2, mixed degrees) whose complete list of common points is certified by the
    exact resultant / Sturm oracle: random dyadic nets, integer lattice nets (degenerate incidences), nets sharing an end
    point with touching boxes, planted crossings.  The oracle runs in a process pool (deterministic: inputs come from ctx.rng)."""
    import multiprocessing as mp
    rng = ctx.rng
    pairs = []
    for _ in range(3 * count):
        n1, n2 = rng.randint(2, max_deg), rng.randint(2, max_deg)
        if n1 * n2 > 16:
            continue
        fam = rng.choice(["random", "lattice", "touching-end", "touching-end", "planted", "near-parallel"])
        if fam == "random":
            c1, c2 = rand_curve(rng, n1, 4, 1), rand_curve(rng, n2, 4, 1)
        elif fam == "lattice":
            c1 = [[F(rng.randint(0, 4)) for _ in range(n1 + 1)] for _ in range(2)]
            c2 = [[F(rng.randint(0, 4)) for _ in range(n2 + 1)] for _ in range(2)]
        elif fam == "near-parallel":
            # the second curve is the first one turned by a small angle (tan = 1/16 or 1/8, sine well above 2^-7) about one of
            # its own points: the curves run close together over their whole length (many candidate pairs: the pruning above
            # 64 candidates is exercised) and cross transversally at the pivot
            n2 = n1
            c1 = rand_curve(rng, n1, 4, 1)
            a = F(rng.randint(1, 7), 8)
            px, py = oq.bernstein(c1[0], a), oq.bernstein(c1[1], a)
            e = F(1, rng.choice([8, 16])) * rng.choice([1, -1])
            c2 = [[px + (x - px) - e * (y - py) for x, y in zip(c1[0], c1[1])], [py + e * (x - px) + (y - py) for x, y in zip(c1[0], c1[1])]]
        elif fam == "touching-end":
            # first curve left of / below the meeting point, second right of / above it: the boxes touch in a corner or an edge
            px, py = F(rng.randint(-2, 2)), F(rng.randint(-2, 2))
            c1 = [[px - F(rng.randint(0, 6), 2) for _ in range(n1)] + [px], [py + F(rng.randint(-6, 6), 2) for _ in range(n1)] + [py]]
            c2 = [[px] + [px + F(rng.randint(0, 6), 2) for _ in range(n2)], [py] + [py + F(rng.randint(-6, 6), 2) for _ in range(n2)]]
            if rng.random() < 0.5:
                c1 = [list(reversed(r)) for r in c1]
            if rng.random() < 0.5:
                c2 = [list(reversed(r)) for r in c2]
            if rng.random() < 0.5:
                c1, c2 = c2, c1
            if rng.random() < 0.3:
                c1, c2 = [c1[1], c1[0]], [c2[1], c2[0]]
        else:
            c1, c2 = rand_curve(rng, n1, 4, 1), rand_curve(rng, n2, 4, 1)
            a, b = F(rng.randint(1, 7), 8), F(rng.randint(1, 7), 8)
            dx = oq.bernstein(c1[0], a) - oq.bernstein(c2[0], b)
            dy = oq.bernstein(c1[1], a) - oq.bernstein(c2[1], b)
            c2 = [[x + dx for x in c2[0]], [y + dy for y in c2[1]]]
        if not all(F(float(x)) == x for r in c1 + c2 for x in r):
            continue
        if len(set(zip(*c1))) < 2 or len(set(zip(*c2))) < 2:
            continue
        pairs.append((c1, c2, fam))
    with mp.Pool(16) as pool:
        res = pool.map(_cc_job, [(a, b) for a, b, _ in pairs], chunksize=2)
    out = []
    for (c1, c2, fam), r in zip(pairs, res):
        if r is not None and len(out) < count:
            out.append({"c1": c1, "c2": c2, "expected": list(r), "kind": "curve-curve:" + fam})
    return out


def gen_end_on_curve(ctx, count):
    """an END point of the second curve lies in the interior of the first (dyadic nets on the 1/8 grid, parameter k/16): the
    refined parameter of the second curve is 0 or 1 up to rounding and must be snapped into [0,1]"""
    rng = ctx.rng
    out = []
    for _ in range(count):
        n1, n2 = rng.randint(1, 4), rng.randint(1, 4)
        c1 = [[F(rng.randint(-8, 8), 8) for _ in range(n1 + 1)] for _ in range(2)]
        c2 = [[F(rng.randint(-8, 8), 8) for _ in range(n2 + 1)] for _ in range(2)]
        s0 = F(rng.randint(1, 15), 16)
        p = [oq.bernstein(c1[0], s0), oq.bernstein(c1[1], s0)]
        if not all(F(float(x)) == x for x in p):
            continue
        k = rng.choice([0, -1])
        c2[0][k], c2[1][k] = p
        if len(set(zip(*c1))) < 2 or len(set(zip(*c2))) < 2:
            continue
        if rng.random() < 0.5:
            c1, c2 = c2, c1
        out.append({"c1": c1, "c2": c2, "kind": "end-on-curve"})
    return out


def intersect_args(strategy):
    return lambda c: [enc_arr(c["c1"]), enc_arr(c["c2"]), strategy]


def same_pairs(u, v, tol):
    """u and v are the same multiset of parameter pairs up to tol (matching, not a sorted zip: two crossings with nearly equal
    first parameter can sort differently)"""
    v = list(v)
    if len(u) != len(v):
        return False
    for x in u:
        hit = next((y for y in v if abs(x[0] - y[0]) <= tol and abs(x[1] - y[1]) <= tol), None)
        if hit is None:
            return False
        v.remove(hit)
    return True


def judge_c02(c, op, cfg, raw):
    """every reported pair has both parameters in [0,1] and is a common point up to 2^-30 of the net size"""
    if "exc" in raw:
        return None             # C02 speaks about normal returns only
    arr = dec_res(raw["ok"])
    if not arr or len(arr) != 2:
        return None if arr in ([], None) or arr == [[], []] else "malformed result"
    tol = F(1, 2 ** 30) * max(io.net_size(c["c1"]), io.net_size(c["c2"]))
    for s, t in zip(arr[0], arr[1]):
        if not isinstance(s, F) or not isinstance(t, F):
            return "non-finite parameter"
        if not (0 <= s <= 1 and 0 <= t <= 1):
            return "parameter outside [0,1]: (%r, %r)" % (float(s), float(t))
        r = io.residual(c["c1"], c["c2"], s, t)
        if r > tol:
            return "reported pair (%r, %r) is not an intersection: |B1(s) - B2(t)| = %r > %r" % (float(s), float(t), float(r), float(tol))
    return None
