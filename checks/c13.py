"""C13 - Triangle validity verdict agrees with the sign of the Jacobian."""
from fractions import Fraction

from common import enc_arr, coq_q, coq_list, dyadic, dec_res, run_impl
from framework import prove, correspond, finish
import oracle_q as oq

DEPS = ["Props/C13.vo", "Corr/C13.vo"]
HEADER = "From Coq Require Import List QArith ZArith.\nFrom BZ Require Import Corr.Common Corr.C13.\nImport ListNotations.\nOpen Scope Q_scope.\n"
U = Fraction(1, 2 ** 53)
F = Fraction


def val_out(res, c):
    return [("val", res)]


def base_net(d):
    """the identity map of the reference triangle scaled by d (integer nodes)"""
    xs, ys = [], []
    for k in range(d + 1):
        for j in range(d + 1 - k):
            xs.append(F(j)); ys.append(F(k))
    return [xs, ys]


def gen_nets(ctx):
    rng = ctx.rng
    out = []
    for d in [1, 2, 3] * (14 if ctx.quick() else 150):
        rows = base_net(d)
        kind = rng.choice(["valid", "marginal", "folded", "inverted", "collinear", "lattice"])
        n = len(rows[0])
        if kind == "valid":
            amp = F(1, 8)
        elif kind == "marginal":
            amp = F(1, 2)
        elif kind == "folded":
            amp = F(2)
        else:
            amp = F(0)
        rows = [[x + amp * F(rng.randint(-4, 4), 4) for x in r] for r in rows]
        if kind == "inverted":
            rows = [rows[1], rows[0]]
        if kind == "collinear":
            rows = [rows[0], [x for x in rows[0]]]
        if kind == "lattice":
            rows = [[F(rng.randint(0, 3)) for _ in range(n)] for _ in range(2)]
        out.append({"d": d, "rows": rows, "kind": kind})
    for d in (4, 5):
        out.append({"d": d, "rows": base_net(d), "kind": "unsupported"})
    # strongly bent but VALID triangles whose three corners are in clockwise order (det J > 0 on a 12 x 12 grid with a margin; the
    # model decides exactly): a shortcut that looks at the corners only (seed c13-6) is wrong on these.  Three pinned instances,
    # then a random search over lattice nets
    bent = [[[F(0), F(1, 2), F(1), F(3), F(5, 4), F(2)], [F(0), F(-1, 2), F(0), F(5), F(1), F(0)]],
            [[F(-4), F(-1), F(-4), F(6), F(-4), F(-6)], [F(4), F(3), F(3), F(2), F(-2), F(-3)]],
            [[F(5), F(0), F(-1), F(1), F(-1), F(-4)], [F(2), F(1), F(-1), F(-5), F(-2), F(-1)]]]
    want, tries = (5 if ctx.quick() else 40), 0
    while len(bent) < want and tries < (3000 if ctx.quick() else 60000):
        tries += 1
        rows = [[F(rng.randint(-6, 6)) for _ in range(6)] for _ in range(2)]
        c0, c1, c2 = [(rows[0][i], rows[1][i]) for i in (0, 2, 5)]
        if (c1[0] - c0[0]) * (c2[1] - c0[1]) - (c1[1] - c0[1]) * (c2[0] - c0[0]) > 0:
            continue
        if any(det_j_exact(2, rows, F(i, 4), F(j, 4)) <= 0 for i in range(5) for j in range(5 - i)):
            continue
        if all(det_j_exact(2, rows, F(i, 12), F(j, 12)) >= F(1, 8) for i in range(13) for j in range(13 - i)):
            bent.append(rows)
    for rows in bent:
        out.append({"d": 2, "rows": rows, "kind": "bent-clockwise-corners"})
    return out


def coq_jp(c, obs):
    if obs[0][0] in ("exc", "malformed"):
        return None
    big = max(abs(x) for r in c["rows"] for x in r) or F(1)
    return ["(%s, %s, %s, %s)" % (coq_list(c["rows"][0]), coq_list(c["rows"][1]), coq_list(obs[0][1][0]), coq_q(4096 * U * big * big))]


def coq_valid(c, obs):
    t = "(%d%%nat, %s, %s, " % (c["d"], coq_list(c["rows"][0]), coq_list(c["rows"][1]))
    if obs[0][0] == "exc":
        if obs[0][1] not in ("UnsupportedDegree", "ValueError"):
            return None
        return [t + "@None bool)"]
    if obs[0][0] == "malformed":
        return None
    return [t + "Some %s)" % ("true" if obs[0][1] else "false")]


def det_j_exact(d, rows, s, t):
    """det of the Jacobian from the exact derivative nets"""
    def idx(j, k, deg):
        return sum(deg + 1 - kk for kk in range(k)) + j
    def dnet(v, which):
        o = []
        for k in range(d):
            for j in range(d - k):
                a = v[idx(j, k, d)]
                b = v[idx(j + 1, k, d)] if which == "s" else v[idx(j, k + 1, d)]
                o.append(d * (b - a))
        return o
    e = lambda net: oq.tri_bernstein(net, d - 1, 1 - s - t, s, t) if d > 1 else net[0]
    return e(dnet(rows[0], "s")) * e(dnet(rows[1], "t")) - e(dnet(rows[0], "t")) * e(dnet(rows[1], "s"))


def quadratic_positive_certificate(rows, depth=4):
    """EXACT certificate that det J > 0 on the whole closed reference triangle of a quadratic triangle: x_s, x_t, y_s, y_t are
    linear in (s, t); on a sub-triangle with corners p0, p1, p2 the quadratic det J = x_s y_t - x_t y_s has the Bernstein
    coefficients a_i b_i (corners) and (a_i b_j + a_j b_i) / 2 (edges) of the products of the corner values; if all six are
    positive det J is positive there.  The reference triangle is split into four, recursively.  Returns True / None (undecided)"""
    def lin(v, which):
        # corner values (at (0,0), (1,0), (0,1)) of d/ds (which = 0) or d/dt (which = 1) of the quadratic with net v
        idx = {(0, 0): 0, (1, 0): 1, (2, 0): 2, (0, 1): 3, (1, 1): 4, (0, 2): 5}
        out = []
        for (j, k) in ((0, 0), (1, 0), (0, 1)):
            a0 = v[idx[(j, k)]]
            out.append(2 * ((v[idx[(j + 1, k)]] if which == 0 else v[idx[(j, k + 1)]]) - a0))
        return out
    fs = [lin(rows[0], 0), lin(rows[0], 1), lin(rows[1], 0), lin(rows[1], 1)]      # xs, xt, ys, yt at the three corners
    at = lambda f, p: f[0] + (f[1] - f[0]) * p[0] + (f[2] - f[0]) * p[1]

    def ok(tri_, dep):
        xs, xt, ys, yt = [[at(f, p) for p in tri_] for f in fs]
        coef = []
        for i in range(3):
            coef.append(xs[i] * yt[i] - xt[i] * ys[i])
        for i, j in ((0, 1), (0, 2), (1, 2)):
            coef.append((xs[i] * yt[j] + xs[j] * yt[i] - xt[i] * ys[j] - xt[j] * ys[i]) / 2)
        if all(x > 0 for x in coef):
            return True
        if dep == 0 or any(x <= 0 for x in coef[:3]):
            return None
        p0, p1, p2 = tri_
        m01 = ((p0[0] + p1[0]) / 2, (p0[1] + p1[1]) / 2)
        m02 = ((p0[0] + p2[0]) / 2, (p0[1] + p2[1]) / 2)
        m12 = ((p1[0] + p2[0]) / 2, (p1[1] + p2[1]) / 2)
        return True if all(ok(t_, dep - 1) for t_ in ((p0, m01, m02), (m01, p1, m12), (m02, m12, p2), (m01, m12, m02))) else None
    return ok(((F(0), F(0)), (F(1), F(0)), (F(0), F(1))), depth)


def judge_valid(c, op, cfg, raw):
    """soundness: a reported-valid triangle has no grid point with non-positive Jacobian (exact)"""
    d = c["d"]
    if "exc" in raw:
        if d > 3 and raw["exc"] == "UnsupportedDegree":
            return None
        if raw["exc"] == "ValueError":
            return None     # undecided after the maximum number of subdivisions: documented error, no claim
        return "raised %s" % raw["exc"]
    if d > 3:
        return "degree %d did not raise" % d
    verdict = dec_res(raw["ok"])
    m = 8
    worst = None
    for i in range(m + 1):
        for j in range(m + 1 - i):
            v = det_j_exact(d, c["rows"], F(i, m), F(j, m))
            worst = v if worst is None or v < worst else worst
    if d == 1 and bool(verdict) != (worst > 0):
        # a linear triangle: det J is the constant (P1 - P0) x (P2 - P0); valid iff it is positive (exact on exact data)
        return "linear triangle with det J = %s reported %s" % (float(worst), "valid" if verdict else "invalid")
    if verdict and worst <= 0:
        return "reported valid but det J = %s <= 0 at a grid point" % float(worst)
    # completeness with a clear margin (quadratics: exact certificate): a triangle whose Jacobian is positive everywhere, by at least
    # 1/8 on the grid, must not be reported invalid
    if (not verdict) and d == 2 and worst >= F(1, 8) and quadratic_positive_certificate(c["rows"]):
        return "reported invalid, but det J > 0 on the whole closed triangle (exact Bernstein certificate; at least %s on the grid)" % float(worst)
    return None


def _basis_derivs(d, grid):
    """exact values of d/ds and d/dt of every Bernstein basis function at the grid points (as float arrays)"""
    import numpy as np
    n = (d + 1) * (d + 2) // 2
    Ds = np.zeros((len(grid), n)); Dt = np.zeros((len(grid), n))
    for i in range(n):
        unit = [F(1 if k == i else 0) for k in range(n)]
        for g, (s, t) in enumerate(grid):
            # derivative nets of the unit net
            def idx(j, k, deg):
                return sum(deg + 1 - kk for kk in range(k)) + j
            ds, dt = [], []
            for k in range(d):
                for j in range(d - k):
                    a0 = unit[idx(j, k, d)]
                    ds.append(d * (unit[idx(j + 1, k, d)] - a0)); dt.append(d * (unit[idx(j, k + 1, d)] - a0))
            if d > 1:
                Ds[g, i] = float(oq.tri_bernstein(ds, d - 1, 1 - s - t, s, t)); Dt[g, i] = float(oq.tri_bernstein(dt, d - 1, 1 - s - t, s, t))
            else:
                Ds[g, i] = float(ds[0]); Dt[g, i] = float(dt[0])
    return Ds, Dt


def search(ctx):
    """shallow folds: perturbation families scaled until the Jacobian just becomes non-positive somewhere;
    a reported-valid verdict there is a violation.  Candidates are found in binary64, confirmed exactly."""
    import random
    import numpy as np
    rng = random.Random("c13-search-%s" % ctx.seed)
    m = 12
    grid = [(F(i, m), F(j, m)) for i in range(m + 1) for j in range(m + 1 - i)]
    cases = []
    for d in (2, 3):
        Ds, Dt = _basis_derivs(d, grid)
        base = base_net(d)
        n = len(base[0])
        bx = np.array([float(x) for x in base[0]]); by = np.array([float(x) for x in base[1]])
        for _ in range(400):
            pert = [[F(rng.randint(-4, 4), 4) for i in range(n)] for _ in range(2)]
            px = np.array([float(x) for x in pert[0]]); py = np.array([float(x) for x in pert[1]])
            for k in range(1, 257):
                amp = k / 128.0
                x = bx + amp * px; y = by + amp * py
                det = (Ds @ x) * (Dt @ y) - (Dt @ x) * (Ds @ y)
                if det.min() <= 0:
                    g = int(det.argmin())
                    a2 = F(k, 128)
                    rows2 = [[u + a2 * p for u, p in zip(r, pr)] for r, pr in zip(base, pert)]
                    w2 = det_j_exact(d, rows2, *grid[g])
                    if w2 <= 0:
                        cases.append({"d": d, "rows": rows2, "kind": "shallow-fold", "worst": w2, "at": grid[g]})
                    break
    for cfg in ("pure", "speedup"):
        res = run_impl(cfg, [{"op": "Triangle.is_valid", "args": [enc_arr(c["rows"])]} for c in cases])
        for c, raw in zip(cases, res):
            if "ok" in raw and dec_res(raw["ok"]) is True:
                return {"config": cfg, "op": "Triangle.is_valid", "case": c, "implementation_returned": raw,
                        "verdict": "reported valid but det J = %s <= 0 at (s,t) = %s" % (float(c["worst"]), c["at"])}
    return None


def exact_sign(p, d, depth=6):
    """+1 / -1 if Bernstein subdivision (exact rationals) certifies a strict sign on the closed triangle within `depth` levels, else 0"""
    quarters = [((F(1), F(0), F(0)), (F(1, 2), F(1, 2), F(0)), (F(1, 2), F(0), F(1, 2))),
                ((F(0), F(1, 2), F(1, 2)), (F(1, 2), F(0), F(1, 2)), (F(1, 2), F(1, 2), F(0))),
                ((F(1, 2), F(1, 2), F(0)), (F(0), F(1), F(0)), (F(0), F(1, 2), F(1, 2))),
                ((F(1, 2), F(0), F(1, 2)), (F(0), F(1, 2), F(1, 2)), (F(0), F(0), F(1)))]
    pieces = [((F(1), F(0), F(0)), (F(0), F(1), F(0)), (F(0), F(0), F(1)))]
    signs = set()
    for _ in range(depth):
        nxt = []
        for (A, B, C) in pieces:
            net = blossom_net(p, d, A, B, C)
            if all(x > 0 for x in net):
                signs.add(1)
            elif all(x < 0 for x in net):
                signs.add(-1)
            else:
                for (a, b, c) in quarters:
                    comb = lambda w: tuple(w[0] * A[k] + w[1] * B[k] + w[2] * C[k] for k in range(3))
                    nxt.append((comb(a), comb(b), comb(c)))
        pieces = nxt
        if not pieces:
            break
    if pieces or len(signs) != 1:
        return 0
    return signs.pop()


def blossom_net(p, d, A, B, C):
    """control net of the restriction of the degree-d Bernstein polynomial p to the triangle with barycentric vertices A, B, C (exact)"""
    def blossom(args):
        # de Casteljau with a different barycentric argument per round
        cur = {}
        pos = 0
        for k in range(d + 1):
            for j in range(d + 1 - k):
                cur[(j, k)] = p[pos]; pos += 1
        deg = d
        for w in args:
            nxt = {}
            for k in range(deg):
                for j in range(deg - k):
                    nxt[(j, k)] = w[0] * cur[(j, k)] + w[1] * cur[(j + 1, k)] + w[2] * cur[(j, k + 1)]
            cur = nxt; deg -= 1
        return cur[(0, 0)]
    out = []
    for k in range(d + 1):
        for j in range(d + 1 - k):
            i = d - j - k
            out.append(blossom([A] * i + [B] * j + [C] * k))
    return out


def run(ctx):
    prove(ctx, DEPS)
    nt = lambda c: c["kind"] not in ("unsupported",)
    nets = gen_nets(ctx)
    q = [c for c in nets if c["d"] == 2]
    cu = [c for c in nets if c["d"] == 3]
    a = lambda c: [enc_arr(c["rows"])]
    correspond(ctx, "quadratic_jacobian_polynomial", q, [("hazmat.quadratic_jacobian_polynomial", a, val_out)],
               coq_jp, HEADER, "chk_jacpoly2", configs=("pure",), nontrivial=nt)
    correspond(ctx, "cubic_jacobian_polynomial", cu, [("hazmat.cubic_jacobian_polynomial", a, val_out)],
               coq_jp, HEADER, "chk_jacpoly3", configs=("pure",), nontrivial=nt)
    # polynomial_sign on the exact nets produced by the model side (lattice nets: all arithmetic exact)
    polys = []
    for c in nets:
        if c["d"] in (2, 3) and c["kind"] in ("lattice", "valid", "inverted", "collinear"):
            polys.append(c)
    # polynomial_sign directly, on dyadic coefficient nets of degree 1..4 (all arithmetic of the subdivision exact): uniform
    # signs, mixed signs, zeros at non-corner positions (the zero polynomial test must require ALL coefficients to vanish),
    # zeros at corners, positive polynomials with a negative interior coefficient (need subdivision), undecidable nets
    rng = ctx.rng
    ps = []
    for rep in range(12 if ctx.quick() else 150):
        for d in (1, 2, 3, 4):
            num = (d + 1) * (d + 2) // 2
            corners = {0, d, num - 1}
            fam = rng.choice(["pos", "neg", "mixed", "zero-noncorner", "zero-noncorner", "zero-corner", "all-zero", "dip", "dip"])
            pos = [F(rng.randint(1, 16), 4) for _ in range(num)]
            if fam == "pos":
                p = pos
            elif fam == "neg":
                p = [-x for x in pos]
            elif fam == "mixed":
                p = [x * rng.choice([1, -1]) for x in pos]
            elif fam == "all-zero":
                p = [F(0)] * num
            elif fam == "zero-corner":
                p = list(pos); p[rng.choice(sorted(corners))] = F(0)
            elif fam == "zero-noncorner":
                p = list(pos)
                free = [i for i in range(num) if i not in corners]
                if not free:
                    continue
                for i in rng.sample(free, rng.randint(1, min(2, len(free)))):
                    p[i] = F(0)
                if rng.random() < 0.3:
                    p = [-x for x in p]
            else:
                p = list(pos)
                free = [i for i in range(num) if i not in corners]
                if not free:
                    continue
                p[rng.choice(free)] = -F(rng.randint(1, 6), 8)
            ps.append({"d": d, "p": p, "kind": fam})

    def coq_ps(c, obs):
        t = "(%s, %d%%nat, " % (coq_list(c["p"]), c["d"])
        if obs[0][0] == "exc":
            return [t + "@None Z)"] if obs[0][1] == "ValueError" else None
        if obs[0][0] == "malformed":
            return None
        return [t + "Some (%d)%%Z)" % int(obs[0][1])]

    def judge_ps(c, op, cfg, raw):
        """+1 / -1 must be the sign on a grid of the closed triangle; a net with all coefficients > 0 must give +1"""
        if "exc" in raw:
            return None if raw["exc"] == "ValueError" else "raised %s" % raw["exc"]
        sg = int(dec_res(raw["ok"]))
        if c["kind"] == "pos" and sg != 1:
            return "all coefficients positive but sign %d" % sg
        if c["kind"] == "neg" and sg != -1:
            return "all coefficients negative but sign %d" % sg
        vals = []
        for i in range(0, 9):
            for j in range(0, 9 - i):
                s_, t_ = F(i, 8), F(j, 8)
                vals.append(oq.tri_bernstein(c["p"], c["d"], 1 - s_ - t_, s_, t_))
        if sg == 1 and min(vals) <= 0:
            return "sign +1 reported but the polynomial is %r at a grid point" % float(min(vals))
        if sg == -1 and max(vals) >= 0:
            return "sign -1 reported but the polynomial is %r at a grid point" % float(max(vals))
        if sg == 0 and c["kind"] in ("zero-noncorner", "dip") and (min(vals) > 0 or max(vals) < 0) and all(x != 0 for i, x in enumerate(c["p"]) if i in (0, c["d"], len(c["p"]) - 1)):
            # a polynomial of one strict sign on the grid, with non-zero corners: "mixed / zero" is only right if it really changes sign;
            # decide exactly with the verified criterion: subdivide the exact net until every piece is uniform
            if exact_sign(c["p"], c["d"]) != 0:
                return "sign 0 (mixed or zero) reported for a polynomial of strict sign %d on the closed triangle" % exact_sign(c["p"], c["d"])
        return None
    correspond(ctx, "polynomial_sign", ps, [("hazmat.polynomial_sign", lambda c: [enc_arr([c["p"]]), c["d"]], val_out)],
               coq_ps, HEADER, "chk_poly_sign", judge=judge_ps, configs=("pure",), nontrivial=lambda c: c["kind"] not in ("pos", "neg"))
    correspond(ctx, "Triangle_is_valid", nets, [("Triangle.is_valid", a, val_out)],
               coq_valid, HEADER, "chk_is_valid", judge=judge_valid, nontrivial=nt)
    # malformed stream: every other degree (0, 4..7) raises UnsupportedDegree, every other dimension (1, 3) NotImplementedError
    from framework import sweep
    bad = []
    for d in (0, 4, 5, 6, 7):
        num = (d + 1) * (d + 2) // 2
        bad.append({"rows": [[F(rng.randint(0, 4)) for _ in range(num)] for _ in range(2)], "want": "UnsupportedDegree", "d": d, "dim": 2})
    for dim in (1, 3):
        for d in (0, 1, 2, 3, 4):
            num = (d + 1) * (d + 2) // 2
            bad.append({"rows": [[F(rng.randint(0, 4)) for _ in range(num)] for _ in range(dim)], "want": "NotImplementedError", "d": d, "dim": dim})

    def judge_bad(c, op, cfg, raw):
        if raw.get("exc") == c["want"]:
            return None
        return "degree %d in R^%d: expected %s, got %s" % (c["d"], c["dim"], c["want"], raw.get("exc") or "the answer %r" % (raw.get("ok"),))
    sweep(ctx, "is_valid_refuses_other_degrees_and_dimensions", bad, [("Triangle.is_valid", a)], judge_bad)
    return finish(ctx, "theorems: the Jacobian-polynomial tables (regenerated) give the Bernstein net of det J for all real nets; "
                  "Bernstein bounds on the closed triangle (every degree) justify the decision of a decided piece. The subdivision "
                  "loop of polynomial_sign is modelled and tied by exact correspondence of Triangle.is_valid on lattice/perturbation "
                  "families; its soundness ACROSS subdivision levels is one Coq theorem (answer +1 / -1 => the polynomial has that sign at "
                  "every real point of the closed triangle), and is_valid = True => det J > 0 everywhere (degrees 2, 3)",
                  search=search,
                  unproved=["completeness: a triangle with det J > 0 everywhere is reported valid within the subdivision budget (not proved)",
                            "float margin near zero (the theorems are about exact arithmetic on the values of the doubles)"])
