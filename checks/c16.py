"""C16 - Pruning predicates are exact on exact data and never reject a true hit."""
import itertools
from fractions import Fraction

from common import enc_arr, enc_vec, enc_f, coq_q, coq_list, coq_mat, coq_val, dec_res, run_impl, NonFinite
from framework import prove, correspond, finish

DEPS = ["Props/C16.vo", "Corr/C16.vo", "Corr/C02.vo"]
HEADER = ("From Coq Require Import List QArith String.\nFrom BZ Require Import Base.PyVal Gen.PyFnHelpers Gen.PyFnGeometric "
          "Gen.PyFnTriangle Corr.Common Corr.C16.\nImport ListNotations.\nOpen Scope Q_scope.\nOpen Scope string_scope.\n")
TOL = Fraction(1, 2 ** 48)
F = Fraction


def v2(p):
    return "(V2 %s %s)" % (coq_q(p[0]), coq_q(p[1]))


def mat(rows):
    return "(vq_mat %s)" % ("[" + "; ".join(coq_list(r) for r in rows) + "]")


def whole(res, c):
    return [("val", res)]


def mk_coq(model_term):
    def f(c, obs):
        if obs[0][0] in ("exc", "malformed"):
            return None
        return ["(%s, %s, %s)" % (model_term(c), coq_val(obs[0][1]), coq_q(TOL))]
    return f


def lattice_pts(k):
    return [(F(i), F(j)) for i in range(k) for j in range(k)]


def gen_segments(ctx):
    """pairs of lattice segments on the 5x5 lattice (all relative positions incl. collinear / parallel / touching)"""
    rng = ctx.rng
    pts = lattice_pts(5)
    segs = [(a, b) for a in pts for b in pts if a != b]
    n = 400 if ctx.quick() else 20000
    out = []
    for _ in range(n):
        s1, s2 = rng.choice(segs), rng.choice(segs)
        if rng.random() < 0.3:      # force collinear / parallel pairs
            d = (s1[1][0] - s1[0][0], s1[1][1] - s1[0][1])
            k = rng.choice([F(-2), F(-1), F(-1, 2), F(1, 2), F(1), F(2)])
            o = rng.choice(pts) if rng.random() < 0.4 else (s1[0][0] + rng.choice([F(-1), F(0), F(1, 2), F(1)]) * d[0],
                                                            s1[0][1] + rng.choice([F(-1), F(0), F(1, 2), F(1)]) * d[1])
            s2 = (o, (o[0] + k * d[0], o[1] + k * d[1]))
        # the predicates are scale free: the same configuration at the scales 1, 2^-10, 2^-22, 2^-30, 2^20 (exact in binary64)
        k = rng.choice([0, 0, -10, -22, -30, 20])
        sc = F(2) ** k
        out.append({"s0": (s1[0][0] * sc, s1[0][1] * sc), "e0": (s1[1][0] * sc, s1[1][1] * sc),
                    "s1": (s2[0][0] * sc, s2[0][1] * sc), "e1": (s2[1][0] * sc, s2[1][1] * sc), "scale": k})
    return out


def gen_boxes(ctx):
    rng = ctx.rng
    out = []
    for _ in range(150 if ctx.quick() else 4000):
        def net():
            n = rng.randint(2, 5)
            return [[F(rng.randint(0, 4)) for _ in range(n)], [F(rng.randint(0, 4)) for _ in range(n)]]
        out.append({"n1": net(), "n2": net(), "p": (F(rng.randint(0, 8), 2), F(rng.randint(0, 8), 2)),
                    "ls": (F(rng.randint(-2, 10), 2), F(rng.randint(-2, 10), 2)), "le": (F(rng.randint(-2, 10), 2), F(rng.randint(-2, 10), 2))})
    return out


def gen_scalars(ctx):
    rng = ctx.rng
    w = F(1, 2 ** 44)
    vals = [F(0), F(1), w, -w, 1 - w, 1 + w, w / 2, -w / 2, 1 - w / 2, 1 + w / 2, 2 * w, -2 * w, F(1, 2), F(-1), F(2), F(1, 3).limit_denominator(2 ** 20)]
    out = [{"v": v, "a": F(0), "b": F(1)} for v in vals]
    for _ in range(60 if ctx.quick() else 1000):
        out.append({"v": F(rng.randint(-8, 8), 4), "a": F(rng.randint(-8, 8), 4), "b": F(rng.randint(-8, 8), 4)})
    return [c for c in out if all(F(float(x)) == x for x in c.values())]


def gen_hull(ctx):
    rng = ctx.rng
    out = []
    n = 250 if ctx.quick() else 20000
    for _ in range(n):
        k = rng.choice([3, 4])
        m = rng.randint(1, 7 if k == 3 else 5)
        pts = [(F(rng.randint(0, k - 1)), F(rng.randint(0, k - 1))) for _ in range(m)]
        out.append({"pts": pts})
    # every sequence of up to three points of the 3x3 lattice (order matters to the in-place sort of the compiled twin: seed c16-4
    # escaped the random sequences for one PRNG seed)
    import itertools
    lat = [(F(a), F(b)) for a in range(3) for b in range(3)]
    for m in (1, 2, 3):
        for seq in itertools.product(lat, repeat=m):
            out.append({"pts": list(seq)})
    # the pinned input of the compiled-hull defect F1 (repeated points)
    out.append({"pts": [(F(1), F(1)), (F(0), F(0)), (F(0), F(0)), (F(1), F(0)), (F(0), F(1))]})
    return out


def gen_polys(ctx):
    """pairs of convex lattice polygons with <= 4 vertices (as returned by the hull: CCW, strictly convex) or segments"""
    rng = ctx.rng
    import math
    pts = lattice_pts(4)

    def hull(ps):
        ps = sorted(set(ps))
        if len(ps) <= 2:
            return ps
        def cr(o, a, b):
            return (a[0] - o[0]) * (b[1] - o[1]) - (a[1] - o[1]) * (b[0] - o[0])
        lo = []
        for p in ps:
            while len(lo) >= 2 and cr(lo[-2], lo[-1], p) <= 0:
                lo.pop()
            lo.append(p)
        up = []
        for p in reversed(ps):
            while len(up) >= 2 and cr(up[-2], up[-1], p) <= 0:
                up.pop()
            up.append(p)
        return lo[:-1] + up[:-1]
    out = []
    while len(out) < (200 if ctx.quick() else 10000):
        p1 = hull([rng.choice(pts) for _ in range(rng.randint(2, 4))])
        p2 = hull([rng.choice(pts) for _ in range(rng.randint(2, 4))])
        if len(p1) >= 2 and len(p2) >= 2:
            out.append({"p1": p1, "p2": p2})
    return out


def rows_of(pts):
    return [[p[0] for p in pts], [p[1] for p in pts]]


def judge_boxes(c, op, cfg, raw):
    """bbox_intersect on exact data: DISJOINT iff the closed boxes share no point, TANGENT iff they touch without interior overlap"""
    if "exc" in raw:
        return "raised %s: %s" % (raw["exc"], raw.get("msg"))
    res = dec_res(raw["ok"])
    (l1, r1, b1, t1) = (min(c["n1"][0]), max(c["n1"][0]), min(c["n1"][1]), max(c["n1"][1]))
    (l2, r2, b2, t2) = (min(c["n2"][0]), max(c["n2"][0]), min(c["n2"][1]), max(c["n2"][1]))
    if r2 < l1 or r1 < l2 or t2 < b1 or t1 < b2:
        want = "DISJOINT"
    elif r2 == l1 or r1 == l2 or t2 == b1 or t1 == b2:
        want = "TANGENT"
    else:
        want = "INTERSECTION"
    got = res[1] if isinstance(res, tuple) and len(res) == 2 and res[0] == "enum" else res
    return None if got == want else "bbox_intersect = %s, the closed boxes are %s" % (got, want)


def judge_contains(c, op, cfg, raw):
    if "exc" in raw:
        return "raised %s: %s" % (raw["exc"], raw.get("msg"))
    res = dec_res(raw["ok"])
    want = all(min(r) <= x <= max(r) for r, x in zip(c["n1"], c["p"]))
    return None if res is want else "contains_nd = %r, the point is %s the closed box" % (res, "in" if want else "outside")


def judge_seg(c, op, cfg, raw):
    """segment_intersection on exact data: fails exactly on parallel segments, otherwise returns the parameters of the common point of
    the two lines (exact rational reference)"""
    if "exc" in raw:
        return "raised %s: %s" % (raw["exc"], raw.get("msg"))
    res = dec_res(raw["ok"])
    d0 = (c["e0"][0] - c["s0"][0], c["e0"][1] - c["s0"][1])
    d1 = (c["e1"][0] - c["s1"][0], c["e1"][1] - c["s1"][1])
    cross = d0[0] * d1[1] - d0[1] * d1[0]
    if cross == 0:
        return None if res[2] is False else "parallel segments but success = %r" % (res[2],)
    if res[2] is not True:
        return "the segments are not parallel (cross product %s) but segment_intersection reports failure" % cross
    sd = (c["s1"][0] - c["s0"][0], c["s1"][1] - c["s0"][1])
    s_ = (sd[0] * d1[1] - sd[1] * d1[0]) / cross
    t_ = (sd[0] * d0[1] - sd[1] * d0[0]) / cross
    if not (isinstance(res[0], Fraction) and isinstance(res[1], Fraction)):
        return "non-finite parameters"
    if abs(res[0] - s_) > TOL * max(1, abs(s_)) or abs(res[1] - t_) > TOL * max(1, abs(t_)):
        return "parameters (%r, %r), exact (%r, %r)" % (float(res[0]), float(res[1]), float(s_), float(t_))
    return None


def judge_llc(c, op, cfg, raw):
    """line_line_collide on exact data = the two closed segments share a point (exact rational reference)"""
    if "exc" in raw:
        return "raised %s: %s" % (raw["exc"], raw.get("msg"))
    res = dec_res(raw["ok"])
    d0 = (c["e0"][0] - c["s0"][0], c["e0"][1] - c["s0"][1])
    d1 = (c["e1"][0] - c["s1"][0], c["e1"][1] - c["s1"][1])
    cross = d0[0] * d1[1] - d0[1] * d1[0]
    sd = (c["s1"][0] - c["s0"][0], c["s1"][1] - c["s0"][1])
    if cross != 0:
        s_ = (sd[0] * d1[1] - sd[1] * d1[0]) / cross
        t_ = (sd[0] * d0[1] - sd[1] * d0[0]) / cross
        want = 0 <= s_ <= 1 and 0 <= t_ <= 1
    else:
        if sd[0] * d0[1] - sd[1] * d0[0] != 0:
            want = False
        else:
            n0 = d0[0] ** 2 + d0[1] ** 2
            a = (sd[0] * d0[0] + sd[1] * d0[1]) / n0
            b = ((c["e1"][0] - c["s0"][0]) * d0[0] + (c["e1"][1] - c["s0"][1]) * d0[1]) / n0
            want = not (max(a, b) < 0 or min(a, b) > 1)
    return None if res is want else "line_line_collide = %r, the closed segments %s" % (res, "share a point" if want else "are disjoint")


def judge_hull(c, op, cfg, raw):
    """the convex hull contains every input point, its vertices are input points, it is convex"""
    if "exc" in raw:
        return "raised %s: %s" % (raw["exc"], raw.get("msg"))
    res = dec_res(raw["ok"])
    hull = list(zip(res[0], res[1])) if res and res[0] else []
    pts = c["pts"]
    if not hull:
        return "empty hull for a non-empty input" if pts else None
    for v in hull:
        if v not in pts:
            return "hull vertex %s is not an input point" % (v,)
    def cr(o, a, b):
        return (a[0] - o[0]) * (b[1] - o[1]) - (a[1] - o[1]) * (b[0] - o[0])
    n = len(hull)
    if n >= 3:
        for i in range(n):
            if cr(hull[i - 1], hull[i], hull[(i + 1) % n]) <= 0:
                return "returned polygon is not strictly convex / counter-clockwise at vertex %d: %s" % (i, [tuple(map(float, h)) for h in hull])
        for p in pts:
            for i in range(n):
                if cr(hull[i - 1], hull[i], p) < 0:
                    return "input point %s lies outside the returned hull" % (tuple(map(float, p)),)
    elif n == 2:
        for p in pts:
            between = all(min(hull[0][k], hull[1][k]) <= p[k] <= max(hull[0][k], hull[1][k]) for k in (0, 1))
            if cr(hull[0], hull[1], p) != 0 or not between:
                return "input point %s is not on the returned segment %s" % (tuple(map(float, p)), [tuple(map(float, h)) for h in hull])
        if hull[0] == hull[1]:
            return "two-vertex hull with a repeated vertex"
    else:
        if any(p != hull[0] for p in pts):
            return "single-point hull for several distinct points"
    return None


def search(ctx):
    return None


# ---------------- linearization_error (hand model, literals from the source) and clip_range (exact reference) ----------------
def gen_lin(ctx):
    rng = ctx.rng
    out = []
    for n in list(range(1, 9)) * (3 if ctx.quick() else 30):
        dim = rng.randint(1, 3)
        rows = [[Fraction(rng.randint(-64, 64), 8) for _ in range(n + 1)] for _ in range(dim)]
        out.append({"rows": rows, "n": n})
    return out


def judge_lin(c, op, cfg, raw):
    """per coordinate the returned value must bound max |B(s) - chord(s)| on a grid of exact parameters (it is an upper bound
    of n(n-1)/8 max|second difference| per coordinate, Euclidean norm over coordinates)"""
    if "exc" in raw:
        return "raised %s" % raw["exc"]
    got = dec_res(raw["ok"])
    n = c["n"]
    want_sq = Fraction(0)
    for r in c["rows"]:
        w = max([abs(r[j] - 2 * r[j + 1] + r[j + 2]) for j in range(n - 1)] + [Fraction(0)])
        want_sq += (Fraction(n * (n - 1), 8) * w) ** 2
    if abs(got * got - want_sq) > Fraction(1, 2 ** 45) * want_sq:
        return "linearization_error^2 = %r, n(n-1)/8 * max|second difference| squared and summed = %r" % (float(got * got), float(want_sq))
    import oracle_q as oq
    for k in range(0, 17):
        s_ = Fraction(k, 16)
        dev_sq = sum((oq.bernstein(r, s_) - ((1 - s_) * r[0] + s_ * r[-1])) ** 2 for r in c["rows"])
        if dev_sq > got * got * (1 + Fraction(1, 2 ** 40)):
            return "the curve is farther from its chord (%r at s = %s) than the returned bound %r" % (float(dev_sq) ** 0.5, s_, float(got))
    return None


def clip_reference(n1, n2):
    """exact clipping range: projection on the parameter axis of (convex hull of the distance polygon) cap (fat line)"""
    (x0, y0), (x1, y1) = (n1[0][0], n1[1][0]), (n1[0][-1], n1[1][-1])
    a, b = -(y1 - y0), (x1 - x0)
    c = (y1 - y0) * x0 - (x1 - x0) * y0
    ds1 = [a * n1[0][i] + b * n1[1][i] + c for i in range(1, len(n1[0]) - 1)]
    dmin, dmax = min(ds1 + [Fraction(0)]), max(ds1 + [Fraction(0)])
    m = len(n2[0]) - 1
    d = [a * n2[0][i] + b * n2[1][i] + c for i in range(m + 1)]
    cand = []
    if dmin <= d[0] <= dmax:
        cand.append(Fraction(0))
    if dmin <= d[m] <= dmax:
        cand.append(Fraction(1))
    for i in range(m):
        for j in range(i + 1, m + 1):
            if d[i] == d[j]:
                return "parallel"
            for lev in (dmin, dmax):
                t = (lev - d[i]) / (d[j] - d[i])
                if 0 <= t <= 1:
                    cand.append((i + t * (j - i)) / m)
    if not cand:
        return (Fraction(1), Fraction(0))
    return (min(cand), max(cand))


def gen_clip(ctx):
    rng = ctx.rng
    out = []
    tries = 0
    want = 240 if ctx.quick() else 3000
    kinds = {"parallel": 0, "empty": 0, "full": 0, "proper": 0}
    while len(out) < want and tries < 40 * want:
        tries += 1
        d1, d2 = rng.randint(1, 5), rng.randint(1, 6)
        if rng.random() < 0.5:
            den, rad = 2, 8        # coarse lattice: ties, parallel chords, end points exactly on the fat lines
        else:
            den, rad = 8, 64
        n1 = [[Fraction(rng.randint(-rad, rad), den) for _ in range(d1 + 1)] for _ in range(2)]
        n2 = [[Fraction(rng.randint(-rad, rad), den) for _ in range(d2 + 1)] for _ in range(2)]
        if (n1[0][0], n1[1][0]) == (n1[0][-1], n1[1][-1]):
            continue
        ref = clip_reference(n1, n2)
        kind = "parallel" if ref == "parallel" else "empty" if ref[0] > ref[1] else "full" if ref == (0, 1) else "proper"
        if kind == "parallel" and kinds["parallel"] >= want // 8:
            continue
        if kind in ("empty", "full") and kinds[kind] >= want // 5:
            continue
        kinds[kind] += 1
        out.append({"n1": n1, "n2": n2, "ref": ref, "kind": kind})
    ctx.clip_kinds = kinds
    return out


def judge_clip(c, op, cfg, raw):
    ref = c["ref"]
    if ref == "parallel":
        return None if raw.get("exc") == "NotImplementedError" else "two control distances are equal (parallel to the fat line): expected NotImplementedError, got %s" % (raw.get("exc") or "a normal return")
    if "exc" in raw:
        return "raised %s: %s" % (raw["exc"], raw.get("msg", "")[:80])
    got = dec_res(raw["ok"])
    tol = Fraction(1, 2 ** 40)
    if abs(got[0] - ref[0]) > tol or abs(got[1] - ref[1]) > tol:
        return "clip_range = (%r, %r), exact range of (hull of the distance polygon) cap (fat line) = (%r, %r)" % (
            float(got[0]), float(got[1]), float(ref[0]), float(ref[1]))
    return None


def run(ctx):
    prove(ctx, DEPS)
    nt = lambda c: True
    # ---- scalar predicates
    sc = gen_scalars(ctx)
    correspond(ctx, "in_interval", sc,
               [("shim.in_interval", lambda c: [enc_f(c["v"]), enc_f(c["a"]), enc_f(c["b"])], whole),
                ("hazmat.in_interval", lambda c: [enc_f(c["v"]), enc_f(c["a"]), enc_f(c["b"])], whole)],
               mk_coq(lambda c: "py_in_interval (VQ %s) (VQ %s) (VQ %s)" % (coq_q(c["v"]), coq_q(c["a"]), coq_q(c["b"]))),
               HEADER, "chk_val", nontrivial=nt)
    correspond(ctx, "wiggle_interval", sc,
               [("shim.wiggle_interval", lambda c: [enc_f(c["v"])], whole), ("hazmat.wiggle_interval", lambda c: [enc_f(c["v"])], whole)],
               mk_coq(lambda c: "py_wiggle_interval_default (VQ %s)" % coq_q(c["v"])), HEADER, "chk_val", nontrivial=nt)
    # ---- boxes
    bx = gen_boxes(ctx)
    correspond(ctx, "bbox", bx, [("shim.bbox", lambda c: [enc_arr(c["n1"])], whole), ("hazmat.bbox", lambda c: [enc_arr(c["n1"])], whole)],
               mk_coq(lambda c: "py_bbox %s" % mat(c["n1"])), HEADER, "chk_val", nontrivial=nt)
    correspond(ctx, "contains_nd", bx,
               [("shim.contains_nd", lambda c: [enc_arr(c["n1"]), enc_vec(list(c["p"]))], whole),
                ("hazmat.contains_nd", lambda c: [enc_arr(c["n1"]), enc_vec(list(c["p"]))], whole)],
               mk_coq(lambda c: "py_contains_nd %s %s" % (mat(c["n1"]), v2(c["p"]))), HEADER, "chk_val", judge=judge_contains, nontrivial=nt)
    # contains_nd in dimensions 1..4: the point is inside the box in every coordinate but (possibly) one, any of them
    cd = []
    for _ in range(60 if ctx.quick() else 1500):
        dim = ctx.rng.randint(1, 4)
        n = ctx.rng.randint(2, 5)
        net = [[F(ctx.rng.randint(0, 4)) for _ in range(n)] for _ in range(dim)]
        p = [F(ctx.rng.randint(int(2 * min(r)), int(2 * max(r))), 2) for r in net]
        if ctx.rng.random() < 0.6:
            k_ = ctx.rng.randrange(dim)
            p[k_] = max(net[k_]) + F(1, 2) if ctx.rng.random() < 0.5 else min(net[k_]) - F(1, 2)
        cd.append({"n1": net, "p": tuple(p)})
    correspond(ctx, "contains_nd_dimensions", cd,
               [("shim.contains_nd", lambda c: [enc_arr(c["n1"]), enc_vec(list(c["p"]))], whole),
                ("hazmat.contains_nd", lambda c: [enc_arr(c["n1"]), enc_vec(list(c["p"]))], whole)],
               mk_coq(lambda c: "py_contains_nd %s (vq_list %s)" % (mat(c["n1"]), coq_list(list(c["p"])))), HEADER, "chk_val",
               judge=judge_contains, nontrivial=nt)
    correspond(ctx, "bbox_intersect", bx,
               [("shim.bbox_intersect", lambda c: [enc_arr(c["n1"]), enc_arr(c["n2"])], whole),
                ("hazmat.bbox_intersect", lambda c: [enc_arr(c["n1"]), enc_arr(c["n2"])], whole)],
               mk_coq(lambda c: "py_bbox_intersect %s %s" % (mat(c["n1"]), mat(c["n2"]))), HEADER, "chk_val", judge=judge_boxes, nontrivial=nt)
    correspond(ctx, "bbox_line_intersect", bx,
               [("hazmat.bbox_line_intersect", lambda c: [enc_arr(c["n1"]), enc_vec(list(c["ls"])), enc_vec(list(c["le"]))], whole)],
               mk_coq(lambda c: "py_bbox_line_intersect %s %s %s" % (mat(c["n1"]), v2(c["ls"]), v2(c["le"]))),
               HEADER, "chk_val", configs=("pure",), nontrivial=nt)
    # ---- segments
    sg = gen_segments(ctx)
    a4 = lambda c: [enc_vec(list(c["s0"])), enc_vec(list(c["e0"])), enc_vec(list(c["s1"])), enc_vec(list(c["e1"]))]
    t4 = lambda c: "%s %s %s %s" % (v2(c["s0"]), v2(c["e0"]), v2(c["s1"]), v2(c["e1"]))
    correspond(ctx, "segment_intersection", sg, [("hazmat.segment_intersection", a4, whole)],
               mk_coq(lambda c: "py_segment_intersection " + t4(c)), HEADER, "chk_val", judge=judge_seg, configs=("pure",), nontrivial=nt)
    correspond(ctx, "parallel_lines_parameters", sg, [("hazmat.parallel_lines_parameters", a4, whole)],
               mk_coq(lambda c: "py_parallel_lines_parameters " + t4(c)), HEADER, "chk_val", configs=("pure",), nontrivial=nt)
    l2 = lambda c: [enc_arr([[c["s0"][0], c["e0"][0]], [c["s0"][1], c["e0"][1]]]), enc_arr([[c["s1"][0], c["e1"][0]], [c["s1"][1], c["e1"][1]]])]
    correspond(ctx, "line_line_collide", sg, [("hazmat.line_line_collide", l2, whole)],
               mk_coq(lambda c: "py_line_line_collide %s %s" % (mat([[c["s0"][0], c["e0"][0]], [c["s0"][1], c["e0"][1]]]),
                                                                mat([[c["s1"][0], c["e1"][0]], [c["s1"][1], c["e1"][1]]]))),
               HEADER, "chk_val", judge=judge_llc, configs=("pure",), nontrivial=nt)
    # ---- hull and collision (hand model)
    hl = gen_hull(ctx)
    correspond(ctx, "simple_convex_hull", hl,
               [("shim.simple_convex_hull", lambda c: [enc_arr(rows_of(c["pts"]))], whole),
                ("hazmat.simple_convex_hull", lambda c: [enc_arr(rows_of(c["pts"]))], whole)],
               mk_coq(lambda c: "hull_val %s %s" % (coq_list([p[0] for p in c["pts"]]), coq_list([p[1] for p in c["pts"]]))),
               HEADER, "chk_val", judge=judge_hull, nontrivial=nt)
    pl = gen_polys(ctx)
    correspond(ctx, "polygon_collide", pl,
               [("shim.polygon_collide", lambda c: [enc_arr(rows_of(c["p1"])), enc_arr(rows_of(c["p2"]))], whole),
                ("hazmat.polygon_collide", lambda c: [enc_arr(rows_of(c["p1"])), enc_arr(rows_of(c["p2"]))], whole)],
               mk_coq(lambda c: "collide_val %s %s %s %s" % (coq_list([p[0] for p in c["p1"]]), coq_list([p[1] for p in c["p1"]]),
                                                           coq_list([p[0] for p in c["p2"]]), coq_list([p[1] for p in c["p2"]]))),
               HEADER, "chk_val", nontrivial=nt)
    ln = gen_lin(ctx)
    correspond(ctx, "linearization_error", ln, [("hazmat.linearization_error", lambda c: [enc_arr(c["rows"])], whole)],
               lambda c, obs: None if obs[0][0] in ("exc", "malformed") else ["(%s, %s, %s)" % (coq_mat(c["rows"]), coq_q(obs[0][1]), coq_q(Fraction(1, 2 ** 45)))],
               HEADER, "chk_lin_error", judge=judge_lin, configs=("pure",), nontrivial=lambda c: c["n"] >= 2)
    # clip_range: the model (regenerated per-chord update inside hand-written loops) against the implementation; NotImplementedError <-> VErr
    cl = gen_clip(ctx)

    def coq_clip(c, obs):
        if obs[0][0] == "exc":
            o = '(VErr "%s")' % obs[0][1]
        elif obs[0][0] == "malformed":
            return None
        else:
            o = coq_val(obs[0][1])
        return ["(clip_val %s %s %s %s, %s, %s)" % (coq_list(c["n1"][0]), coq_list(c["n1"][1]), coq_list(c["n2"][0]), coq_list(c["n2"][1]),
                                                   o, coq_q(Fraction(1, 2 ** 40)))]
    correspond(ctx, "clip_range", cl, [("hazmat.clip_range", lambda c: [enc_arr(c["n1"]), enc_arr(c["n2"])], whole)],
               coq_clip, HEADER, "chk_val", judge=judge_clip, configs=("pure",), nontrivial=lambda c: c["ref"] != "parallel")
    ctx.corr["clip_range"]["distribution(kind of exact answer)"] = dict(ctx.clip_kinds)
    from framework import sweep
    sweep(ctx, "clip_range_exact", cl, [("hazmat.clip_range", lambda c: [enc_arr(c["n1"]), enc_arr(c["n2"])])], judge_clip, configs=("pure",))
    # the compiled twins of segment_intersection / parallel_lines_parameters are only reachable through the
    # line-line case of all_intersections
    from checks import isect_common as ic
    ic.correspond_lines(ctx, n_quick=250)
    return finish(ctx, "scalar predicates are REGENERATED from the Python sources (py2v_more) and their specifications proved over Q; "
                  "convex hull / polygon collision are hand models tied by correspondence, the hull theorem is by complete enumeration "
                  "of the stated finite domains, the separating-axis theorem is for all inputs; Fortran twins are tied by correspondence",
                  search=search,
                  unproved=["hull correctness for arbitrary point sets (proved for every finite sequence on the 4x4 lattice)",
                            "clipping range: the theorem is about exact data and the model whose loops are hand-written (per-chord update and implicit line regenerated), tied by correspondence and an exact reference sweep; the compiled clip_range is not reachable from Python",
                            "'err on the safe side on general (rounded) data' is not proved in a rounded model"])
