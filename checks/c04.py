"""C04 - Subdividing or specializing a curve preserves its shape."""
from fractions import Fraction

from common import enc_arr, enc_f, coq_q, coq_list, dyadic, is_double
from framework import prove, correspond, finish
import oracle_q as oq

DEPS = ["Props/C04.vo", "Corr/C04.vo"]
HEADER = "From Coq Require Import List QArith.\nFrom BZ Require Import Corr.Common Corr.C04.\nImport ListNotations.\nOpen Scope Q_scope.\n"
U = Fraction(1, 2 ** 53)


def growth_bits(t):
    """bits added per de Casteljau round with weights (1-t, t), t dyadic"""
    t = Fraction(t)
    den = max(t.denominator, 1)
    g = abs((1 - t) * den) + abs(t * den)
    return int(g - 1).bit_length() if g > 1 else 0, den.bit_length() - 1


def gen_cases(ctx):
    rng = ctx.rng
    cases = []
    maxdeg = 32
    per = 2 if ctx.quick() else 12
    simple = [Fraction(0), Fraction(1, 2), Fraction(1)]
    rich = [Fraction(k, 4) for k in range(-4, 9)]
    for n in range(1, maxdeg + 1):
        for rep in range(per):
            dim = rng.randint(1, 4)
            # --- exact stream
            if n <= 8 and rep % 2 == 0:
                a, b = rng.choice(rich), rng.choice(rich)
            else:
                a, b = rng.choice(simple), rng.choice(simple)
            ga, _ = growth_bits(a)
            gb, _ = growth_bits(b)
            budget = 52 - n * max(ga, gb, 1) - 2
            if budget < 1:
                a, b = rng.choice(simple), rng.choice(simple)
                budget = 52 - n - 2
            bits = max(1, min(12, budget // 2))
            pb = max(0, min(8, budget - bits))
            kind = rng.choice(["random", "unit", "random"])
            rows = []
            for _ in range(dim):
                if kind == "unit":
                    j = rng.randint(0, n)
                    rows.append([Fraction(1 if i == j else 0) for i in range(n + 1)])
                else:
                    rows.append([dyadic(rng, bits, pb) for _ in range(n + 1)])
            cases.append({"n": n, "rows": rows, "a": a, "b": b, "tol": Fraction(0), "stream": "exact"})
        # --- bound stream: arbitrary doubles, a, b in [-1,2]
        for rep in range((3 if n <= 6 else 1) if ctx.quick() else 6):
            dim = rng.randint(1, 3)
            # few-bit inputs: the exact model stays small, the binary64 computation rounds from round 5 on
            rows = [[dyadic(rng, 14, 10) for _ in range(n + 1)] for _ in range(dim)]
            if n <= 6:
                # genuinely arbitrary doubles (53 significant bits; their product is not representable in any shorter format)
                a = Fraction(rng.uniform(-1.0, 2.0))
                b = Fraction(rng.uniform(-1.0, 2.0)) if rng.random() < 0.8 else a
            else:
                a = Fraction(rng.randint(-256, 512), 256)
                b = Fraction(rng.randint(-256, 512), 256)
            g = max(abs(1 - a) + abs(a), abs(1 - b) + abs(b), 1)
            vmax = max(abs(x) for r in rows for x in r)
            # consequences of the proved bounds (majorant <= vmax g^n): specialize (3n roundings), generic subdivision (4n+2)
            tol = max((3 * n + 1) * g ** n, 4 * n + 3) * U * vmax
            cases.append({"n": n, "rows": rows, "a": a, "b": b, "tol": tol, "stream": "bound"})
        # --- parameters a hair away from 0 or 1 (2^-45 .. 2^-60, either side): the restriction to [a, b] is NOT the restriction to
        # the nearest of 0 / 1 (seed c04-6 snapped them in Curve.specialize); judged with the proved allowance
        if n <= 8:
            for rep in range(1 if ctx.quick() else 4):
                rows = [[dyadic(rng, 14, 10) for _ in range(n + 1)] for _ in range(rng.randint(1, 2))]
                base = rng.choice([Fraction(0), Fraction(1)])
                tiny = Fraction(1, 2 ** rng.choice([45, 46, 50, 60] if base == 0 else [45, 46, 50])) * rng.choice([1, -1])
                near = base + tiny
                other = Fraction(rng.randint(1, 7), 8)
                a, b = (near, other) if rng.random() < 0.5 else (other, near)
                g = max(abs(1 - a) + abs(a), abs(1 - b) + abs(b), 1)
                vmax = max(abs(x) for r in rows for x in r)
                cases.append({"n": n, "rows": rows, "a": a, "b": b, "tol": max((3 * n + 1) * g ** n, 4 * n + 3) * U * vmax, "stream": "bound-near-end"})
    return cases


def rows_sub(res, c):
    left, right = res
    return [("sub", i, left[i], right[i]) for i in range(len(c["rows"]))]


def rows_spec(res, c):
    return [("spec", i, res[i]) for i in range(len(c["rows"]))]


def coq_case_sub(c, obs):
    if obs and obs[0][0] in ("exc", "malformed"):
        return None
    # one Coq case per coordinate row is too many terms; pack rows as separate list entries
    terms = []
    for (_k, i, l, r) in obs:
        terms.append("(%s, %s, %s, %s)" % (coq_list(c["rows"][i]), coq_list(l), coq_list(r), coq_q(c["tol"])))
    return terms


def coq_case_spec(c, obs):
    if obs and obs[0][0] in ("exc", "malformed"):
        return None
    terms = []
    for (_k, i, out) in obs:
        terms.append("(%s, %s, %s, %s, %s)" % (coq_list(c["rows"][i]), coq_q(c["a"]), coq_q(c["b"]), coq_list(out), coq_q(c["tol"])))
    return terms


def judge_spec(c, op, cfg, raw):
    """Property-level verdict: control points agree with the exact reparametrized ones up to a rounding bound."""
    from common import dec_res
    if "exc" in raw:
        return "raised %s: %s" % (raw["exc"], raw.get("msg"))
    out = dec_res(raw["ok"])
    n = c["n"]
    g = max(abs(1 - c["a"]) + abs(c["a"]), abs(1 - c["b"]) + abs(c["b"]), 1)
    for i, row in enumerate(c["rows"]):
        want = oq.specialize(row, c["a"], c["b"])
        maj = spec_majorant(row, c["a"], c["b"])
        for j in range(n + 1):
            tol = (3 * n + 1) * U * maj[j]          # PROVED: ((1+u)^(3n) - 1) * majorant (C04_specialize_rounding_bound)
            if abs(out[i][j] - want[j]) > tol:
                return "control point %d of row %d is %s, exact reparametrization gives %s (proved allowance %s)" % (
                    j, i, float(out[i][j]), float(want[j]), float(tol))
    return None


def spec_majorant(row, a, b):
    """Pabs of theorem C04_specialize_rounding_bound: the same rounds on absolute values (node j: n-j rounds with |1-a|,|a|, then j with |1-b|,|b|)"""
    n = len(row) - 1
    def rnd(v, t):
        return [abs(1 - t) * v[i] + abs(t) * v[i + 1] for i in range(len(v) - 1)]
    out = []
    for j in range(n + 1):
        v = [abs(x) for x in row]
        for _ in range(n - j):
            v = rnd(v, a)
        for _ in range(j):
            v = rnd(v, b)
        out.append(v[0])
    return out


def judge_sub(c, op, cfg, raw):
    from common import dec_res
    if "exc" in raw:
        return "raised %s: %s" % (raw["exc"], raw.get("msg"))
    left, right = dec_res(raw["ok"])
    n = c["n"]
    for i, row in enumerate(c["rows"]):
        wl = oq.specialize(row, 0, Fraction(1, 2))
        wr = oq.specialize(row, Fraction(1, 2), 1)
        ml = oq.specialize([abs(x) for x in row], 0, Fraction(1, 2))
        mr = oq.specialize([abs(x) for x in row], Fraction(1, 2), 1)
        for j in range(n + 1):
            # PROVED for the generic path: ((1+u)^(4n+2) - 1) * majorant (C04_subdivide_rounding_bound)
            if abs(left[i][j] - wl[j]) > (4 * n + 3) * U * ml[j] or abs(right[i][j] - wr[j]) > (4 * n + 3) * U * mr[j]:
                return "half control point %d of row %d off: left %s vs %s, right %s vs %s" % (
                    j, i, float(left[i][j]), float(wl[j]), float(right[i][j]), float(wr[j]))
        if left[i][n] != right[i][0]:
            return "junction not shared bit-for-bit in row %d: %s vs %s" % (i, float(left[i][n]).hex(), float(right[i][0]).hex())
    return None


def known_sub(c, op, cfg, raw):
    return None


def search(ctx):
    """Unit nets x degrees x the parameter grid of the quantifier, implementation vs exact reparametrization."""
    from common import run_impl
    grid = [Fraction(0), Fraction(1, 2), Fraction(1), Fraction(-1), Fraction(2), Fraction(1, 4), Fraction(3, 4)]
    for cfg in ("pure", "speedup"):
        jobs, meta = [], []
        for n in list(range(1, 9)) + [12, 16, 32]:
            rows = [[Fraction(1 if i == j else 0) for i in range(n + 1)] for j in range(n + 1)]
            jobs.append({"op": "Curve.subdivide", "args": [enc_arr(rows)]})
            meta.append(("sub", {"n": n, "rows": rows}))
            for a in grid[:5]:
                for b in grid[:5]:
                    if n > 8 and (a not in grid[:3] or b not in grid[:3]):
                        continue
                    jobs.append({"op": "Curve.specialize", "args": [enc_arr(rows), enc_f(a), enc_f(b)]})
                    meta.append(("spec", {"n": n, "rows": rows, "a": a, "b": b}))
        res = run_impl(cfg, jobs)
        for (kind, c), raw in zip(meta, res):
            v = judge_sub(c, "Curve.subdivide", cfg, raw) if kind == "sub" else judge_spec(c, "Curve.specialize", cfg, raw)
            if v:
                return {"config": cfg, "op": "Curve.subdivide" if kind == "sub" else "Curve.specialize", "case": c,
                        "implementation_returned": raw, "verdict": v}
    return None


def run(ctx):
    prove(ctx, DEPS)
    cases = gen_cases(ctx)
    nontriv = lambda c: c["a"] != c["b"] and any(len(set(r)) > 1 for r in c["rows"])
    correspond(ctx, "subdivide", cases,
               [("Curve.subdivide", lambda c: [enc_arr(c["rows"])], rows_sub),
                ("shim.subdivide_nodes", lambda c: [enc_arr(c["rows"])], rows_sub),
                ("hazmat.subdivide_nodes", lambda c: [enc_arr(c["rows"])], rows_sub)],
               coq_case_sub, HEADER, "chk_subdivide", judge=judge_sub, known=known_sub, nontrivial=nontriv)
    correspond(ctx, "specialize", cases,
               [("Curve.specialize", lambda c: [enc_arr(c["rows"]), enc_f(c["a"]), enc_f(c["b"])], rows_spec),
                ("shim.specialize_curve", lambda c: [enc_arr(c["rows"]), enc_f(c["a"]), enc_f(c["b"])], rows_spec),
                ("hazmat.specialize_curve", lambda c: [enc_arr(c["rows"]), enc_f(c["a"]), enc_f(c["b"])], rows_spec)],
               coq_case_spec, HEADER, "chk_specialize", judge=judge_spec, nontrivial=nontriv)
    # junction shared bit-for-bit on arbitrary doubles (the theorem C04_junction_is_one_expression is about the Python
    # construction; the compiled generic path is only reachable this way)
    from framework import sweep
    import random as _r
    jr = _r.Random("c04-junction-%s" % ctx.seed)
    jc = []
    for n in list(range(1, 33)) * (2 if ctx.quick() else 20):
        jc.append({"n": n, "rows": [[Fraction(jr.uniform(-3, 3)) for _ in range(n + 1)] for _ in range(jr.randint(1, 3))]})

    def judge_junction(c, op, cfg, raw):
        from common import dec_res
        if "exc" in raw:
            return "raised %s" % raw["exc"]
        left, right = dec_res(raw["ok"])
        for i in range(len(c["rows"])):
            if left[i][-1] != right[i][0]:
                return "degree %d: junction point not shared bit-for-bit (row %d): %s vs %s" % (c["n"], i, float(left[i][-1]).hex(), float(right[i][0]).hex())
            if left[i][0] != c["rows"][i][0] or right[i][-1] != c["rows"][i][-1]:
                return "degree %d: end points of the halves are not the end points of the curve bit-for-bit" % c["n"]
        return None
    sweep(ctx, "junction_bitwise_on_random_doubles", jc,
          [("Curve.subdivide", lambda c: [enc_arr(c["rows"])]), ("shim.subdivide_nodes", lambda c: [enc_arr(c["rows"])])], judge_junction)
    return finish(ctx, "theorems are about the Gallina model of curve_helpers.{subdivide_nodes, make_subdivision_matrices, "
                  "specialize_curve}; tables are regenerated from the source; the Fortran variants are tied by exact-input "
                  "correspondence only; rounding bound (5(n+1)u, a-priori) is validated, not proved",
                  search=search,
                  unproved=["floating-point rounding bound of the control points (validated on the bound stream, not proved)",
                            "Fortran closed forms are tied by correspondence, not translated"])
