"""C05 - Triangle evaluation equals the bivariate Bernstein definition."""
from fractions import Fraction
F = Fraction

from common import enc_arr, enc_f, coq_q, coq_list, dyadic, dec_res, run_impl
from framework import prove, correspond, finish
import oracle_q as oq

DEPS = ["Props/C05.vo", "Corr/C05.vo"]
HEADER = "From Coq Require Import List QArith.\nFrom BZ Require Import Corr.Common Corr.C05.\nImport ListNotations.\nOpen Scope Q_scope.\n"
U = Fraction(1, 2 ** 53)


def tri_rows(rng, d, dim, vb, kind):
    n = (d + 1) * (d + 2) // 2
    rows = []
    for _ in range(dim):
        if kind == "unit":
            j = rng.randrange(n)
            rows.append([Fraction(1 if i == j else 0) for i in range(n)])
        elif kind == "const":
            rows.append([Fraction(1)] * n)
        else:
            rows.append([dyadic(rng, vb, 4) for _ in range(n)])
    return rows


def gen_cases(ctx):
    rng = ctx.rng
    degs = list(range(1, 13)) if ctx.quick() else list(range(1, 41))
    extra = [20, 29, 30, 31, 35, 40] if ctx.quick() else [29, 30, 31, 32] * 2
    cases = []
    for d in degs * (2 if ctx.quick() else 3) + extra:
        dim = rng.randint(1, 4) if d <= 12 else rng.randint(1, 2)
        kind = rng.choice(["unit", "random", "random", "const"])
        rows = tri_rows(rng, d, dim, 8, kind)
        q = rng.choice([1, 2, 3]) if d <= 12 else rng.choice([1, 2])
        den = 2 ** q
        bary = [(Fraction(1), Fraction(0), Fraction(0)), (Fraction(0), Fraction(1), Fraction(0)),
                (Fraction(0), Fraction(0), Fraction(1))]
        # edge, interior, centroid-like and outside points; triples need not sum to one
        a = rng.randint(0, den)
        bary.append((Fraction(a, den), Fraction(den - a, den), Fraction(0)))
        a = rng.randint(0, den); b = rng.randint(0, den - a)
        bary.append((Fraction(a, den), Fraction(b, den), Fraction(den - a - b, den)))
        bary.append((Fraction(rng.randint(-den, 2 * den), den), Fraction(rng.randint(-den, 2 * den), den), Fraction(rng.randint(-den, 2 * den), den)))
        cart = [(Fraction(0), Fraction(0)), (Fraction(1), Fraction(0)), (Fraction(0), Fraction(1))]
        s = rng.randint(0, den); t = rng.randint(0, den - s)
        cart.append((Fraction(s, den), Fraction(t, den)))
        cart.append((Fraction(rng.randint(-den, 2 * den), den), Fraction(rng.randint(-den, 2 * den), den)))
        cases.append({"d": d, "rows": rows, "bary": bary, "cart": cart, "kind": kind})
    return cases


def tol(d, row, l1, l2, l3):
    if (l1, l2, l3) in ((1, 0, 0), (0, 1, 0), (0, 0, 1)):
        return Fraction(0)          # corners are interpolated exactly
    # PROVED allowance (theorem C05_rounding_error_bound): ((1+u)^(4d+4) - 1) <= (4d+5) u, with |lambda1| replaced by
    # |1 - s| + |t| for Cartesian input (lambda1 = fl(fl(1 - s) - t) cancels); valid for barycentric input too ((2d+4) roundings)
    l1m = abs(l1)
    if l1 + l2 + l3 == 1:
        l1m = max(l1m, abs(1 - l2) + abs(l3))
    return (4 * d + 5) * U * oq.tri_bernstein_abs(row, d, l1m, l2, l3)


def coq_triples(ps):
    return "[" + "; ".join("(%s, %s, %s)" % (coq_q(a), coq_q(b), coq_q(c)) for a, b, c in ps) + "]"


def coq_pairs(ps):
    return "[" + "; ".join("(%s, %s)" % (coq_q(a), coq_q(b)) for a, b in ps) + "]"


def rows_out(res, c):
    return [("row", i, res[i]) for i in range(len(c["rows"]))]


def coq_bary(c, obs):
    if obs[0][0] in ("exc", "malformed"):
        return None
    return ["(%d%%nat, %s, %s, %s, %s)" % (c["d"], coq_list(c["rows"][i]), coq_triples(c["bary"]), coq_list(out),
                                           coq_list([tol(c["d"], c["rows"][i], *p) for p in c["bary"]])) for (_k, i, out) in obs]


def coq_cart(c, obs):
    if obs[0][0] in ("exc", "malformed"):
        return None
    return ["(%d%%nat, %s, %s, %s, %s)" % (c["d"], coq_list(c["rows"][i]), coq_pairs(c["cart"]), coq_list(out),
                                           coq_list([tol(c["d"], c["rows"][i], 1 - s - t, s, t) for s, t in c["cart"]]))
            for (_k, i, out) in obs]


def edges_out(res, c):
    return [("edges", i, res[0][i], res[1][i], res[2][i]) for i in range(len(c["rows"]))]


def coq_edges(c, obs):
    if obs[0][0] in ("exc", "malformed"):
        return None
    return ["(%d%%nat, %s, %s, %s, %s)" % (c["d"], coq_list(c["rows"][i]), coq_list(e1), coq_list(e2), coq_list(e3))
            for (_k, i, e1, e2, e3) in obs]


def judge_edges(c, op, cfg, raw):
    """the three edges are the boundary rows of the control net, copied (exact): edge 1 = the bottom row (k = 0), edge 2 = the
    points with i = 0 from the second corner to the third, edge 3 = the points with j = 0 from the third corner back to the first"""
    if "exc" in raw:
        return "raised %s: %s" % (raw["exc"], raw.get("msg", "")[:100])
    res = dec_res(raw["ok"])
    d = c["d"]
    for i, row in enumerate(c["rows"]):
        want = [[row[oq.tri_index(d, d - j, j, 0)] for j in range(d + 1)],
                [row[oq.tri_index(d, 0, d - k, k)] for k in range(d + 1)],
                [row[oq.tri_index(d, k_, 0, d - k_)] for k_ in range(d + 1)]]
        for e in range(3):
            got = list(res[e][i])
            if got != want[e]:
                return "edge %d, coordinate %d: %s, the control net has %s there" % (e + 1, i, [float(x) for x in got], [float(x) for x in want[e]])
    return None


def judge_pts(c, triples, out):
    d = c["d"]
    for i, row in enumerate(c["rows"]):
        for k, (l1, l2, l3) in enumerate(triples):
            got = out[i][k]
            if not isinstance(got, Fraction):
                return "non-finite value at row %d point %d" % (i, k)
            want = oq.tri_bernstein(row, d, l1, l2, l3)
            allow = tol(d, row, l1, l2, l3)
            if abs(got - want) > allow:
                return "degree %d row %d at (%s,%s,%s): got %r, bivariate Bernstein definition %r, allowance %r" % (
                    d, i, l1, l2, l3, float(got), float(want), float(allow))
    return None


def judge_bary(c, op, cfg, raw):
    if "exc" in raw:
        return "raised %s: %s" % (raw["exc"], raw.get("msg"))
    return judge_pts(c, c["bary"], dec_res(raw["ok"]))


def judge_cart(c, op, cfg, raw):
    if "exc" in raw:
        return "raised %s: %s" % (raw["exc"], raw.get("msg"))
    return judge_pts(c, [(1 - s - t, s, t) for s, t in c["cart"]], dec_res(raw["ok"]))


def known_f4(c, op, cfg, raw):
    return None


def search(ctx):
    for cfg in ("pure", "speedup"):
        jobs, meta = [], []
        for d in list(range(1, 9)) + [12, 20, 29, 30, 31, 40]:
            n = (d + 1) * (d + 2) // 2
            rows = [[Fraction(1)] * n]
            if d <= 8:
                rows += [[Fraction(1 if i == j else 0) for i in range(n)] for j in range(n)]
            pts = [(Fraction(1, 4), Fraction(1, 4), Fraction(1, 2)), (Fraction(1, 2), Fraction(1, 2), Fraction(0)),
                   (Fraction(1), Fraction(0), Fraction(0)), (Fraction(0), Fraction(1), Fraction(0)), (Fraction(0), Fraction(0), Fraction(1))]
            c = {"d": d, "rows": rows, "bary": pts}
            jobs.append({"op": "Triangle.evaluate_barycentric_multi", "args": [enc_arr(rows), enc_arr([list(p) for p in pts])]})
            meta.append(c)
        res = run_impl(cfg, jobs)
        for c, raw in zip(meta, res):
            v = judge_bary(c, "", cfg, raw)
            if v:
                return {"config": cfg, "op": "Triangle.evaluate_barycentric_multi", "case": c,
                        "implementation_returned": raw, "verdict": v}
    return None


def run(ctx):
    prove(ctx, DEPS)
    cases = gen_cases(ctx)
    nontriv = lambda c: c["kind"] != "const"
    a_bary = lambda c: [enc_arr(c["rows"]), enc_arr([list(p) for p in c["bary"]]), False]
    a_cart = lambda c: [enc_arr(c["rows"]), enc_arr([list(p) for p in c["cart"]]), False]
    dim = lambda c: len(c["rows"])
    correspond(ctx, "evaluate_barycentric_multi", cases,
               [("Triangle.evaluate_barycentric_multi", a_bary, rows_out),
                ("shim.tri_evaluate_barycentric_multi", lambda c: [enc_arr(c["rows"]), c["d"], enc_arr([list(p) for p in c["bary"]]), dim(c)], rows_out),
                ("hazmat.tri_evaluate_barycentric_multi", lambda c: [enc_arr(c["rows"]), c["d"], enc_arr([list(p) for p in c["bary"]]), dim(c)], rows_out)],
               coq_bary, HEADER, "chk_tri_bary", judge=judge_bary, nontrivial=nontriv)
    correspond(ctx, "evaluate_cartesian_multi", cases,
               [("Triangle.evaluate_cartesian_multi", a_cart, rows_out),
                ("shim.tri_evaluate_cartesian_multi", lambda c: [enc_arr(c["rows"]), c["d"], enc_arr([list(p) for p in c["cart"]]), dim(c)], rows_out),
                ("hazmat.tri_evaluate_cartesian_multi", lambda c: [enc_arr(c["rows"]), c["d"], enc_arr([list(p) for p in c["cart"]]), dim(c)], rows_out)],
               coq_cart, HEADER, "chk_tri_cart", judge=judge_cart, nontrivial=nontriv)
    # single-point entry points; the public methods verify their parameters (glue): ValueError <-> None
    singles = []
    for c in cases[:: (3 if ctx.quick() else 1)]:
        for p, q in zip(c["bary"], c["cart"] + c["cart"][:1]):
            singles.append(dict(c, bary=[p], cart=[q]))
    correspond(ctx, "hazmat_evaluate_barycentric_single", singles,
               [("shim.tri_evaluate_barycentric", lambda c: [enc_arr(c["rows"]), c["d"]] + [enc_f(x) for x in c["bary"][0]], rows_out),
                ("hazmat.tri_evaluate_barycentric", lambda c: [enc_arr(c["rows"]), c["d"]] + [enc_f(x) for x in c["bary"][0]], rows_out)],
               coq_bary, HEADER, "chk_tri_bary", judge=judge_bary, nontrivial=nontriv)

    def coq_verify(kind):
        def f(c, obs):
            pt = c[kind][0]
            ptq = "(%s)" % ", ".join(coq_q(x) for x in pt)
            if obs[0][0] == "exc":
                if obs[0][1] != "ValueError":
                    return None
                return ["(%d%%nat, %s, %s, @None Q, 0)" % (c["d"], coq_list(r), ptq) for r in c["rows"]]
            if obs[0][0] == "malformed":
                return None
            lam = pt if kind == "bary" else (1 - pt[0] - pt[1], pt[0], pt[1])
            return ["(%d%%nat, %s, %s, Some %s, %s)" % (c["d"], coq_list(c["rows"][i]), ptq, coq_q(out[0]),
                                                      coq_q(tol(c["d"], c["rows"][i], *lam))) for (_k, i, out) in obs]
        return f
    correspond(ctx, "Triangle_evaluate_barycentric_verify", singles,
               [("Triangle.evaluate_barycentric", lambda c: [enc_arr(c["rows"])] + [enc_f(x) for x in c["bary"][0]], rows_out)],
               coq_verify("bary"), HEADER, "chk_Tri_bary_verify", nontrivial=nontriv)
    correspond(ctx, "Triangle_evaluate_cartesian_verify", singles,
               [("Triangle.evaluate_cartesian", lambda c: [enc_arr(c["rows"])] + [enc_f(x) for x in c["cart"][0]], rows_out)],
               coq_verify("cart"), HEADER, "chk_Tri_cart_verify", nontrivial=nontriv)
    # the public single-point methods with verify=False: any weights, in particular triples off the reference triangle in which one
    # weight is exactly 1 (or 0) and the others are not the matching corner values; corresponded with the unverified model
    nov = []
    specials = [(F(1), F(1, 2), F(-1, 2)), (F(-1, 4), F(1), F(1, 4)), (F(1, 2), F(-1, 2), F(1)), (F(0), F(3, 2), F(-1, 2)),
                (F(1), F(0), F(0)), (F(0), F(1), F(0)), (F(0), F(0), F(1)), (F(2), F(-1, 2), F(-1, 2))]
    for c in cases[:: (4 if ctx.quick() else 1)]:
        if c["d"] > 12:
            continue
        for p in specials[:: (2 if ctx.quick() else 1)]:
            nov.append(dict(c, bary=[p], cart=[(p[1], p[2])]))
    correspond(ctx, "Triangle_evaluate_barycentric_no_verify", nov,
               [("Triangle.evaluate_barycentric", lambda c: [enc_arr(c["rows"])] + [enc_f(x) for x in c["bary"][0]] + [False], rows_out)],
               coq_bary, HEADER, "chk_tri_bary", judge=judge_bary, nontrivial=nontriv)
    correspond(ctx, "Triangle_evaluate_cartesian_no_verify", nov,
               [("Triangle.evaluate_cartesian", lambda c: [enc_arr(c["rows"])] + [enc_f(x) for x in c["cart"][0]] + [False], rows_out)],
               coq_cart, HEADER, "chk_tri_cart", judge=judge_cart, nontrivial=nontriv)
    small = [c for c in cases if c["d"] <= 20]
    correspond(ctx, "edges", small,
               [("Triangle.edges", lambda c: [enc_arr(c["rows"])], edges_out),
                ("Triangle.edges_after_use", lambda c: [enc_arr(c["rows"])], edges_out),
                ("shim.tri_compute_edge_nodes", lambda c: [enc_arr(c["rows"]), c["d"]], edges_out),
                ("hazmat.tri_compute_edge_nodes", lambda c: [enc_arr(c["rows"]), c["d"]], edges_out)],
               coq_edges, HEADER, "chk_tri_edges", judge=judge_edges, nontrivial=nontriv)
    return finish(ctx, "theorems about the Gallina model of triangle_helpers.evaluate_barycentric / compute_edge_nodes; "
                  "the compiled evaluator is tied by correspondence (degrees up to 40); rounding allowance = the PROVED bound ((1+u)^(4d+4)-1) sum|b||v| of the standard-model theorem "
                  "(for the Fortran text the proved allowance is validated on the stream, not proved)",
                  search=search,
                  unproved=["the rounding theorems are instantiated at Flocq FLX(53); overflow / underflow / NaN outside",
                            "the literal index walk of the Python/Fortran loops is modelled through split_rows (tied by correspondence)"])
