"""C19 - Implicitization and Bernstein-basis root finding (partial)."""
from fractions import Fraction

from common import enc_arr, enc_vec, enc_f, coq_q, coq_list, coq_val, dyadic, dec_res, run_impl
from framework import prove, correspond, sweep, finish
import oracle_q as oq
import isect_oracle as io

DEPS = ["Props/C19.vo", "Corr/C19.vo"]
HEADER = ("From Coq Require Import List QArith String.\nFrom BZ Require Import Base.PyVal Model.Algebraic Gen.PyFnAlgebraic Corr.Common Corr.C19.\n"
          "Import ListNotations.\nOpen Scope Q_scope.\nOpen Scope string_scope.\n")
F = Fraction
U = F(1, 2 ** 53)


def mat(rows):
    return "(vq_mat [%s])" % "; ".join(coq_list(r) for r in rows)


def whole(res, c):
    return [("val", res)]


def lattice_curve(rng, n, k=4):
    return [[F(rng.randint(0, k)) for _ in range(n + 1)] for _ in range(2)]


def run(ctx):
    prove(ctx, DEPS)
    rng = ctx.rng
    nt = lambda c: True
    # ---- evaluate (implicit function), degrees 1-3, lattice nets and lattice / on-curve points
    ev = []
    for n in [1, 2, 3] * (12 if ctx.quick() else 200):
        nodes = lattice_curve(rng, n)
        if rng.random() < 0.5:
            s = F(rng.randint(0, 4), 4)
            pt = (oq.bernstein(nodes[0], s), oq.bernstein(nodes[1], s))
        else:
            pt = (F(rng.randint(-2, 6), 2), F(rng.randint(-2, 6), 2))
        ev.append({"n": n, "nodes": nodes, "pt": pt})
        # the implicit function AT the control points themselves (every one of them; an interior control point is in general not
        # on the curve, the value there is a non-zero resultant: seed c19-7 returned 0 at any control node of a cubic)
        if n >= 2 and rng.random() < 0.5:
            for j in range(n + 1):
                ev.append({"n": n, "nodes": nodes, "pt": (nodes[0][j], nodes[1][j])})

    def coq_ev(c, obs):
        if obs[0][0] in ("exc", "malformed"):
            return None
        big = max(abs(x) for r in c["nodes"] for x in r) + max(abs(c["pt"][0]), abs(c["pt"][1])) + 1
        tol = F(0) if c["n"] <= 2 else 4096 * U * big ** 6
        return ["(evaluate_model %s (VQ %s) (VQ %s), %s, %s)" % (mat(c["nodes"]), coq_q(c["pt"][0]), coq_q(c["pt"][1]), coq_val(obs[0][1]), coq_q(tol))]

    def judge_ev(c, op, cfg, raw):
        """the implicit function vanishes at points of the curve"""
        if "exc" in raw:
            return "raised %s" % raw["exc"]
        got = dec_res(raw["ok"])
        if not isinstance(got, F):
            return "non-finite value"
        # exact resultant Res_s(x(s) - x, y(s) - y): the implicit function is proportional to it, so both vanish together
        px, py = oq.to_power(c["nodes"][0]), oq.to_power(c["nodes"][1])
        n_ = c["n"]
        px += [F(0)] * (n_ + 1 - len(px)); py += [F(0)] * (n_ + 1 - len(py))
        p_, q_ = list(px), list(py)
        p_[0] -= c["pt"][0]; q_[0] -= c["pt"][1]
        try:
            r = io._det(io._sylvester(p_, q_))
        except Exception:
            return None
        big = max(abs(x) for rr in c["nodes"] for x in rr) + max(abs(c["pt"][0]), abs(c["pt"][1])) + 1
        if r != 0 and got == 0:
            return "the implicit function is 0 at (%s, %s), the exact resultant there is %s" % (c["pt"][0], c["pt"][1], r)
        if r == 0 and abs(got) > 4096 * U * big ** 6:
            return "the implicit function is %r at a point where the exact resultant vanishes" % float(got)
        return None
    correspond(ctx, "evaluate", ev, [("hazmat.alg_evaluate", lambda c: [enc_arr(c["nodes"]), enc_f(c["pt"][0]), enc_f(c["pt"][1])], whole)],
               coq_ev, HEADER, "chk_val", judge=judge_ev, configs=("pure",), nontrivial=nt)
    # ---- to_power_basis for degree products <= 4 (exact interpolation)
    tp = []
    for (a, b) in [(1, 1), (1, 2), (1, 3), (1, 4), (2, 2)] * (6 if ctx.quick() else 100):
        tp.append({"n1": lattice_curve(rng, a, 3), "n2": lattice_curve(rng, b, 3)})

    def coq_tp(c, obs):
        if obs[0][0] in ("exc", "malformed"):
            return None
        big = max(abs(x) for r in c["n1"] + c["n2"] for x in r) + 1
        return ["(to_power_basis_model %s %s, %s, %s)" % (mat(c["n1"]), mat(c["n2"]), coq_val(obs[0][1]), coq_q(65536 * U * big ** 4))]
    correspond(ctx, "to_power_basis", tp, [("hazmat.alg_to_power_basis", lambda c: [enc_arr(c["n1"]), enc_arr(c["n2"])], whole)],
               coq_tp, HEADER, "chk_val", configs=("pure",), nontrivial=nt)
    # ---- to_power_basis, ALL eight supported pairs (incl. the least-squares fits 2-3, 2-4, 3-3), at several sizes: the returned
    # power-basis array must be a non-zero constant multiple of the exact resultant Res_s(B1(s) - B2(t)) (rational arithmetic).
    # The curves are presented scaled by 2^-k (exact): the polynomial then scales by 2^(-k n1 n2 ...) - nothing absolute may enter
    allp = []
    for (a, b) in [(1, 1), (1, 2), (1, 3), (1, 4), (2, 2), (2, 3), (2, 4), (3, 3)] * (2 if ctx.quick() else 40):
        c1, c2 = lattice_curve(rng, a, 4), lattice_curve(rng, b, 4)
        try:
            g = io._resultant_poly(c1, c2)
        except Exception:
            continue
        if not any(g):
            continue
        for k in (0, 6, 10, 12):
            sc = F(1, 2 ** k)
            allp.append({"n1": [[x * sc for x in r] for r in c1], "n2": [[x * sc for x in r] for r in c2], "g": g, "k": k, "pair": (a, b)})

    def judge_all(c, op, cfg, raw):
        if "exc" in raw:
            return "raised %s: %s" % (raw["exc"], raw.get("msg", "")[:80])
        v = dec_res(raw["ok"])
        v = list(v[0]) if v and isinstance(v[0], (list, tuple)) else list(v)
        if not all(isinstance(x, F) for x in v):
            return "non-finite coefficient"
        g = list(c["g"]) + [F(0)] * (len(v) - len(c["g"]))
        if len(g) > len(v):
            if any(g[len(v):]):
                return "returned %d coefficients, the exact polynomial has degree %d" % (len(v), len(g) - 1)
            g = g[:len(v)]
        gg = sum(x * x for x in g)
        kk = sum(x * y for x, y in zip(v, g)) / gg
        if kk == 0:
            return "the returned polynomial is not a non-zero multiple of the exact intersection polynomial (size 2^-%d)" % c["k"]
        dev = max(abs(x - kk * y) for x, y in zip(v, g))
        big = max(abs(kk * y) for y in g)
        if dev > F(1, 2 ** 24) * big:
            return "pair %d-%d at size 2^-%d: the returned coefficients deviate from a constant multiple of the exact polynomial by %.3g of its largest coefficient" % (
                c["pair"][0], c["pair"][1], c["k"], float(dev / big))
        return None
    sweep(ctx, "to_power_basis_all_pairs_all_sizes", allp,
          [("hazmat.alg_to_power_basis", lambda c: [enc_arr(c["n1"]), enc_arr(c["n2"])])], judge_all, configs=("pure",))
    # ---- poly_to_power_basis
    pb = [{"c": [F(rng.randint(-9, 9), 2) for _ in range(rng.randint(1, 4))]} for _ in range(20 if ctx.quick() else 400)]
    pb += [{"c": [F(1)] * k} for k in (5, 6, 9)]

    def coq_pb(c, obs):
        o = '(VErr "%s")' % obs[0][1] if obs[0][0] == "exc" else coq_val(obs[0][1])
        return ["(py_poly_to_power_basis (vq_list %s), %s, 0)" % (coq_list(c["c"]), o)]
    correspond(ctx, "poly_to_power_basis", pb, [("hazmat.alg_poly_to_power_basis", lambda c: [enc_vec(c["c"])], whole)],
               coq_pb, HEADER, "chk_val", configs=("pure",), nontrivial=nt)
    # ---- polynomial_norm: norm^2 = int_0^1 p^2
    pn = [{"c": [F(rng.randint(-9, 9), 2) for _ in range(rng.randint(1, 13))]} for _ in range(20 if ctx.quick() else 400)]
    pn = [c for c in pn if any(x != 0 for x in c["c"])]

    def coq_pn(c, obs):
        if obs[0][0] in ("exc", "malformed"):
            return None
        return ["(%s, %s, %s)" % (coq_list(c["c"]), coq_q(obs[0][1]), coq_q(F(1, 2 ** 40)))]

    def judge_pn(c, op, cfg, raw):
        got = dec_res(raw["ok"])
        p = c["c"]
        want = sum(p[i] * p[j] / (i + j + 1) for i in range(len(p)) for j in range(len(p)))
        return None if abs(got * got - want) <= F(1, 2 ** 40) * want else "norm^2 %r differs from the integral of p^2 = %r" % (float(got * got), float(want))
    correspond(ctx, "polynomial_norm", pn, [("hazmat.alg_polynomial_norm", lambda c: [enc_vec(c["c"])], whole)],
               coq_pn, HEADER, "chk_norm", judge=judge_pn, configs=("pure",), nontrivial=nt)

    # ---- sigma transform and companion matrix (hand model Model/Sigma.v): trailing / leading / interior zero coefficients,
    #      all-zero and constant inputs, degrees 0..12
    sg = []
    for _ in range(150 if ctx.quick() else 4000):
        d = rng.randint(0, 12)
        cs = [F(rng.randint(-64, 64), rng.choice([1, 2, 8])) for _ in range(d + 1)]
        kind = rng.choice(["plain", "plain", "trailing", "trailing", "interior", "zero", "const"])
        if kind == "trailing":
            for k in range(rng.randint(1, d + 1)):
                cs[d - k] = F(0)
        elif kind == "interior" and d >= 2:
            for _k in range(rng.randint(1, d)):
                cs[rng.randint(0, d - 1)] = F(0)
        elif kind == "zero":
            cs = [F(0)] * (d + 1)
        elif kind == "const":
            cs = [cs[0] or F(1)] + [F(0)] * d
        sg.append({"c": cs, "kind": kind})
    REL = F(1, 2 ** 44)

    def coq_sigma(c, obs):
        if obs[0][0] in ("exc", "malformed"):
            return None
        sig, d, e = obs[0][1]
        o = "None" if sig is None else "(Some %s)" % coq_list(sig)
        return ["(%s, %s, %d%%nat, %d%%nat, %s, 0)" % (coq_list(c["c"]), o, d, e, coq_q(REL))]

    def coq_comp(c, obs):
        if obs[0][0] in ("exc", "malformed"):
            return None
        m, d, e = obs[0][1]
        return ["(%s, [%s], %d%%nat, %d%%nat, %s, 0)" % (coq_list(c["c"]), "; ".join(coq_list(r) for r in m), d, e, coq_q(REL))]
    correspond(ctx, "get_sigma_coeffs", sg, [("hazmat.alg_get_sigma_coeffs", lambda c: [enc_vec(c["c"])], whole)], coq_sigma, HEADER, "chk_sigma",
               configs=("pure",), nontrivial=lambda c: c["kind"] not in ("zero", "const"))
    correspond(ctx, "bernstein_companion", sg, [("hazmat.alg_bernstein_companion", lambda c: [enc_vec(c["c"])], whole)], coq_comp, HEADER, "chk_companion",
               configs=("pure",), nontrivial=lambda c: c["kind"] not in ("zero", "const"))
    kinds = {}
    for c in sg:
        kinds[c["kind"]] = kinds.get(c["kind"], 0) + 1
    ctx.corr["get_sigma_coeffs"]["distribution(kind)"] = kinds
    # ---- support: bezier_roots returns all roots (prescribed roots), LAPACK not modelled
    cases = []
    for _ in range(40 if ctx.quick() else 600):
        nreal = rng.randint(0, 5)
        ncplx = rng.randint(0, 2)
        if nreal + 2 * ncplx == 0:
            continue
        roots = [(F(rng.choice([-8, -3, 0, 2, 4, 5, 7, 8, 8, 12, 16]), 8), F(0)) for _ in range(nreal)]     # real roots, 1 over-represented
        for _k in range(ncplx):
            re_, im_ = F(rng.choice([-2, 0, 1, 2, 2, 3, 4]), 2), F(rng.choice([1, 2, 4]), 2)                 # a +- ib on a lattice (real part 1 included)
            roots += [(re_, im_), (re_, -im_)]
        repeated = len(set(roots)) < len(roots)
        if repeated and (rng.random() < 0.5 or max(roots.count(r) for r in roots) > 2):
            continue
        # exact real power-basis coefficients: product of (x - r) and (x^2 - 2 re x + re^2 + im^2)
        p = [F(1)]
        for (re_, im_) in roots:
            if im_ == 0:
                p = oq.poly_mul(p, [-re_, F(1)])
            elif im_ > 0:
                p = oq.poly_mul(p, [re_ * re_ + im_ * im_, -2 * re_, F(1)])
        deg = len(p) - 1
        bern = oq.from_power(p, deg)
        elevated = 0
        if rng.random() < 0.3:
            elevated = rng.randint(1, 2)
            for _k in range(elevated):
                bern = oq.elevate(bern)
        # scaling does not move roots: clear denominators so that the coefficients are exact integers in binary64
        from math import lcm
        m = lcm(*[x.denominator for x in bern])
        bern = [x * m for x in bern]
        if all(F(float(x)) == x for x in bern):
            cases.append({"bern": bern, "roots": roots, "repeated": repeated, "elevated": elevated})

    def judge_roots(c, op, cfg, raw):
        if "exc" in raw:
            return "raised %s: %s" % (raw["exc"], raw.get("msg"))
        got = [complex(float.fromhex(z[0]), float.fromhex(z[1])) for z in raw["ok"]]
        want = [complex(float(a_), float(b_)) for a_, b_ in c["roots"]]
        tol = 1e-4 if c["repeated"] else 1e-7
        if len(got) != len(want):
            return "%d roots returned, %d prescribed (with multiplicity): got %s, prescribed %s" % (len(got), len(want), got, want)
        rest = list(got)
        for w in want:
            g = min(rest, key=lambda z: abs(z - w))
            if abs(g - w) > tol * max(1.0, abs(w)):
                return "prescribed root %s not returned (closest %s): got %s" % (w, g, got)
            rest.remove(g)
        return None
    def known_roots(c, op, cfg, raw):
        """F16: input elevated at least twice - every prescribed root is returned, plus huge spurious ones (the multiple point at infinity)"""
        if c["elevated"] < 2 or "exc" in raw:
            return None
        got = [complex(float.fromhex(z[0]), float.fromhex(z[1])) for z in raw["ok"]]
        want = [complex(float(a_), float(b_)) for a_, b_ in c["roots"]]
        tol = 1e-4 if c["repeated"] else 1e-7
        rest = list(got)
        for w in want:
            if not rest:
                return None
            g = min(rest, key=lambda z: abs(z - w))
            if abs(g - w) > tol * max(1.0, abs(w)):
                return None
            rest.remove(g)
        if rest and all(abs(z) >= 2.0 ** 16 for z in rest) and len(rest) <= c["elevated"]:
            return ("F16 bezier_roots returns the multiple root at infinity of an input that was degree-elevated at least twice as huge finite "
                    "roots (|z| > 2^16): sigma = -1 is then a multiple eigenvalue and is computed with error ~ sqrt(eps), beyond the filter threshold")
        return None
    sweep(ctx, "bezier_roots_prescribed", cases, [("hazmat.alg_bezier_roots", lambda c: [enc_vec(c["bern"])])], judge_roots, configs=("pure",), known=known_roots)
    # pinned instance of F16
    pin = {"bern": [F(x) for x in (578340, 623196, 612969, 573315, 518226, 455214, 388335, 319949, 252112, 188496)],
           "roots": [(F(3, 2), F(0)), (F(3, 2), F(0)), (F(-3, 8), F(0)), (F(1), F(2)), (F(1), F(-2)), (F(1, 2), F(2)), (F(1, 2), F(-2))],
           "repeated": True, "elevated": 2}
    sweep(ctx, "bezier_roots_pinned_F16", [pin], [("hazmat.alg_bezier_roots", lambda c: [enc_vec(c["bern"])])], judge_roots, configs=("pure",), known=known_roots)
    return finish(ctx, "PROVED (functions regenerated from algebraic_intersection.py): the implicit function of degree 1 and 2 vanishes on "
                  "its curve (degree 1: it IS the line equation); the interpolation formulas return exactly K (=1, 3) times the power-basis "
                  "coefficients of the sampled polynomial for degree <= 4; Bernstein -> power basis represents the same polynomial for degree "
                  "<= 3 and raises above. Tied by exact correspondence of evaluate (degree 3 through a hand model of the 6x6 Sylvester "
                  "determinant), to_power_basis (pairs 1-1 .. 2-2), poly_to_power_basis, polynomial_norm. Root finder: the sigma transform "
                  "factorization (s = 1 with multiplicity d - e, the other roots are sigma/(1+sigma)) and 'eigenvalues of the companion matrix = "
                  "roots of the sigma polynomial' are proved for the hand model of _get_sigma_coeffs / bernstein_companion (any field of "
                  "characteristic 0), tied by correspondence. NOT modelled: eigvals / "
                  "polyroots / polyfit / LAPACK (bezier_roots is swept with prescribed roots only)",
                  unproved=[
                            "bezier_roots / roots_in_unit_interval return all roots (LAPACK, NumPy polyroots not modelled; sweep)",
                            "polynomial_norm = L2 norm for every degree (model = the defining double sum; corresponded)",
                            "the eigenvalue computation itself (LAPACK) and the 2^-? filter of sigma near -1 (F16) are outside the model"])
