"""C14 - Calls are pure: no hidden state, no input mutation, layout independent (partial)."""
import json
import re
from fractions import Fraction

from common import enc_arr, enc_f, enc_vec, coq_q, dyadic, dec_res, run_impl, run_impl_parallel, run_cases_sharded, parse_bad
from framework import prove, finish
import oracle_q as oq

DEPS = ["Props/C14.vo", "Corr/C14.vo", "Corr/C14T.vo"]
HEADER = "From Coq Require Import List QArith.\nFrom BZ Require Import Model.Workspace Corr.Common Corr.C14.\nImport ListNotations.\nOpen Scope Q_scope.\n"
F = Fraction


def wiggly(n):
    """graph of prod (s - r_j), n simple roots in (0,1): crosses the x-axis n times"""
    p = [F(1)]
    for j in range(n):
        r = F(2 * j + 1, 2 * n)
        p = oq.poly_mul(p, [-r, F(1)])
    ys = oq.from_power([c * 4 ** n for c in p], n)
    xs = [F(float(F(i, n))) for i in range(n + 1)]
    ys = [F(float(y)) for y in ys]
    return [xs, ys]


LINE = [[F(0), F(1)], [F(0), F(0)]]


def inputs():
    """index -> (nodes1, nodes2); expected number of crossings = index for index >= 1"""
    out = [(LINE, [[F(0), F(1)], [F(1), F(1)]])]        # parallel: 0 intersections
    for n in range(1, 10):
        out.append((wiggly(n) if n > 1 else [[F(0), F(1)], [F(-1), F(1)]], LINE))
    return out


def parse_too_small(msg):
    m = re.search(r"Needed space for (\d+) intersections but only had space for (\d+)", msg)
    return (int(m.group(1)), int(m.group(2))) if m else None

def hard_inputs():
    """(op, args) calls whose numerics stress the iteration state of the compiled routines: tangent and numerically tangent
    pairs (Newton takes linear steps / gives up), pairs of very close simple roots (many Newton iterations), failing calls,
    triangle intersections, locate, plus ordinary calls"""
    par = [[F(0), F(1, 2), F(1)], [F(0), F(1), F(0)]]          # apex (1/2, 1/2)
    out = []
    for k in (0, 10, 20, 27, 30, 33, 40, 45):
        eps = F(0) if k == 0 else F(1, 2 ** k)
        line = [[F(0), F(1)], [F(1, 2) - eps, F(1, 2) - eps]]
        out.append(("Curve.intersect", [enc_arr(par), enc_arr(line), "GEOMETRIC"]))
        out.append(("Curve.intersect", [enc_arr(line), enc_arr(par), "GEOMETRIC"]))
    # two parabolas kissing / nearly kissing
    for k in (0, 20, 30, 40):
        eps = F(0) if k == 0 else F(1, 2 ** k)
        up = [[F(0), F(1, 2), F(1)], [F(1) - eps, F(0) - eps, F(1) - eps]]   # lowest point (1/2, 1/2 - eps)
        out.append(("Curve.intersect", [enc_arr(par), enc_arr(up), "GEOMETRIC"]))
    # collinear overlapping straight segments in every relative position and direction (the compiled parallel_lines_parameters writes
    # its answer into the module-level intersections workspace: a slot it forgets to write keeps what an earlier call left there -
    # seed c14-5)
    seg = lambda u, v: [[F(u), F(v)], [F(2 * u), F(2 * v)]]
    for (p0, p1, q0, q1) in [(0, 4, -2, 2), (0, 4, 2, 6), (0, 4, 1, 3), (0, 4, -1, 5), (0, 4, 2, -2), (0, 4, 6, 2), (4, 0, -2, 2), (0, 4, 4, 8),
                             (0, 4, -4, 0), (1, 3, 0, 4)]:
        out.append(("Curve.intersect", [enc_arr(seg(p0, p1)), enc_arr(seg(q0, q1)), "GEOMETRIC"]))
    # cubic with an inflection crossing, ordinary pairs, coincident (raises / flagged) pairs
    cub = [[F(0), F(1, 4), F(3, 4), F(1)], [F(0), F(2), F(-2), F(0)]]
    out.append(("Curve.intersect", [enc_arr(cub), enc_arr([[F(0), F(1)], [F(0), F(0)]]), "GEOMETRIC"]))
    out.append(("Curve.intersect", [enc_arr(cub), enc_arr([[F(0), F(1)], [F(1, 8), F(-1, 8)]]), "GEOMETRIC"]))
    out.append(("Curve.intersect", [enc_arr(par), enc_arr(par), "GEOMETRIC"]))
    for n in (3, 5, 7):
        out.append(("Curve.intersect", [enc_arr(wiggly(n)), enc_arr(LINE), "GEOMETRIC"]))
    t1 = [[F(0), F(1), F(0)], [F(0), F(0), F(1)]]
    t2 = [[F(1, 4), F(5, 4), F(1, 4)], [F(1, 4), F(1, 4), F(5, 4)]]
    t3 = [[F(0), F(1, 2), F(1), F(0), F(1, 2), F(0)], [F(0), F(-1, 4), F(0), F(1, 2), F(1, 2), F(1)]]
    out.append(("Triangle.intersect_summary", [enc_arr(t1), enc_arr(t2)]))
    out.append(("Triangle.intersect_summary", [enc_arr(t3), enc_arr(t2)]))
    out.append(("Triangle.intersect_summary", [enc_arr(t1), enc_arr(t3)]))
    out.append(("Triangle.locate", [enc_arr(t3), enc_arr([[F(1, 4)], [F(1, 4)]])]))
    out.append(("Curve.locate", [enc_arr(cub), enc_arr([[F(1, 2)], [F(0)]])]))
    out.append(("Curve.evaluate", [enc_arr(cub), enc_f(F(3, 8))]))
    # the same routine at one degree in several dimensions, larger first and smaller first (scratch space kept between calls must
    # not leak): curves (specialize, subdivide, evaluate, elevate) and triangles on the generic path (degree 5, 6) and the table path
    import random as _r
    g = _r.Random(20240917)
    dy = lambda: F(g.randint(-64, 64), 8)
    for n in (3, 4, 6):
        for dim in (4, 1, 3, 2, 4):
            c = [[dy() for _ in range(n + 1)] for _ in range(dim)]
            out.append(("shim.specialize_curve", [enc_arr(c), enc_f(F(1, 4)), enc_f(F(3, 4))]))
            out.append(("shim.subdivide_nodes", [enc_arr(c)]))
            out.append(("shim.evaluate_multi", [enc_arr(c), enc_vec([F(1, 4), F(5, 8)])]))
            out.append(("shim.elevate_nodes", [enc_arr(c)]))
    for d in (2, 5, 6):
        num = (d + 1) * (d + 2) // 2
        for dim in (3, 1, 2, 3):
            t = [[dy() for _ in range(num)] for _ in range(dim)]
            out.append(("shim.tri_subdivide_nodes", [enc_arr(t), d]))
            out.append(("shim.tri_specialize", [enc_arr(t), d, enc_vec([F(1), F(0), F(0)]), enc_vec([F(1, 2), F(1, 2), F(0)]), enc_vec([F(1, 4), F(1, 4), F(1, 2)])]))
            out.append(("shim.tri_evaluate_barycentric_multi", [enc_arr(t), d, enc_arr([[F(1, 4), F(1, 4), F(1, 2)], [F(1), F(0), F(0)]]), dim]))
    return out


def numerical_state_sweep(ctx):
    """every call of a random history (one process) must return bit-for-bit what the same call returns alone in a pristine process
    (exception type and message included)"""
    rng = ctx.rng
    calls = hard_inputs()
    stats = {"distinct_calls": len(calls), "histories": 0, "calls_compared": 0, "differences": 0,
             "kind": "support sweep: tangent / nearly tangent / close-root / failing / triangle calls in random order, each compared "
                     "bitwise with a pristine process"}
    for cfg in ("speedup", "pure"):
        from concurrent.futures import ThreadPoolExecutor
        with ThreadPoolExecutor(max_workers=16) as ex:
            pristine = list(ex.map(lambda c: run_impl(cfg, [{"op": c[0], "args": c[1]}])[0], calls))
        key = lambda r: json.dumps(r, sort_keys=True)
        n_hist = (8 if cfg == "speedup" else 2) if ctx.quick() else (60 if cfg == "speedup" else 10)
        length = 40 if ctx.quick() else 300
        hists = []
        for h in range(n_hist):
            if h == 0:
                order = list(range(len(calls))) + list(reversed(range(len(calls))))       # every ordered neighbour pair of the list
            else:
                order = [rng.randrange(len(calls)) for _ in range(length)]
            hists.append(order)
        with ThreadPoolExecutor(max_workers=16) as ex:
            outs = list(ex.map(lambda order: run_impl(cfg, [{"op": calls[i][0], "args": calls[i][1], "retain": True} for i in order]
                                                      + [{"op": "probe.reread", "args": []}]), hists))
        for order, res in zip(hists, outs):
            stats["histories"] += 1
            # arrays previously returned: every object handed back during the history, encoded again at its end
            again = res[-1].get("ok")
            res = res[:-1]
            first = [r["ok"] for r in res if "ok" in r]
            stats["rereads"] = stats.get("rereads", 0) + len(first)
            if again is None or len(again) != len(first):
                ctx.violations.append({"kind": "reread-failed", "config": cfg, "op": "probe.reread", "case": {}, "implementation_returned": res[-1] if res else None,
                                       "verdict": "could not read the retained results again", "no_input": True})
            else:
                okpos = [k for k, r in enumerate(res) if "ok" in r]
                for k, a, b in zip(okpos, first, again):
                    if key(a) != key(b):
                        stats["differences"] += 1
                        ctx.violations.append({"kind": "returned-array-modified-later", "config": cfg, "op": calls[order[k]][0],
                                               "case": {"call": calls[order[k]][1], "later_calls": [[calls[j][0], calls[j][1]] for j in order[k + 1:]]},
                                               "implementation_returned": {"at_return": a, "after_later_calls": b},
                                               "verdict": "the object returned by this call holds other values after %d later calls" % (len(order) - 1 - k)})
                        break
            for pos, (i, r) in enumerate(zip(order, res)):
                stats["calls_compared"] += 1
                if key(r) != key(pristine[i]):
                    stats["differences"] += 1
                    if stats["differences"] <= 3:
                        ctx.violations.append({"kind": "result-depends-on-history", "config": cfg, "op": calls[i][0],
                                               "case": {"call": calls[i][1], "history_of_earlier_calls": [[calls[j][0], calls[j][1]] for j in order[:pos]]},
                                               "implementation_returned": r, "pristine": pristine[i],
                                               "verdict": "the call returns something else after %d earlier calls than alone in a pristine process" % pos})
                    break
    ctx.corr["sweep:numerical_state_histories"] = stats


def mutation_sweep(ctx):
    """no public method modifies the shape it is invoked on, the array it was built from (copy=False), cached edges, or
    argument shapes: bytes of every caller-visible array before / after.  Decimal (non-dyadic) data, degrees 1..8."""
    rng = ctx.rng
    dec_ = lambda lo, hi: F(float(F(rng.randint(lo, hi), 10)))
    jobs, meta = [], []
    reps = 1 if ctx.quick() else 6
    cheap = {"evaluate", "evaluate_multi", "evaluate_hodograph", "subdivide", "elevate", "specialize", "reduce_",
             "evaluate_cartesian", "evaluate_barycentric", "evaluate_cartesian_multi", "edges"}
    # (the cheap methods see 8 times as many nets: whether a write-back of a recomputed value changes a byte depends on the
    # rounding of that particular value - seed c14-2 escaped a single net per degree)
    for rep_ in range(8 * reps):
        for n in range(1, 9):
            c = [[dec_(-30, 30) for _ in range(n + 1)] for _ in range(2)]
            c2 = [[dec_(-30, 30) for _ in range(rng.randint(2, 4))] for _ in range(2)]
            c2[1] = (c2[1] + c2[1])[:len(c2[0])]
            pt = [[c[0][0]], [c[1][0]]]
            calls = [("evaluate", [enc_f(F(3, 8))]), ("evaluate_multi", [enc_vec([F(1, 4), F(3, 4)])]), ("evaluate_hodograph", [enc_f(F(3, 8))]),
                     ("subdivide", []), ("elevate", []), ("specialize", [enc_f(F(1, 4)), enc_f(F(3, 4))]),
                     ("locate", [enc_arr(pt)]), ("intersect", [["shape", "curve", enc_arr(c2)]]), ("length", [])]
            if n <= 4:
                calls.append(("reduce_", []))
            if n <= 5:
                calls.append(("self_intersections", []))
            for m, a in calls:
                if rep_ >= reps and m not in cheap:
                    continue
                jobs.append({"op": "probe.mutation", "args": ["curve", enc_arr(c), m, a]})
                meta.append(("curve", n, m, c))
        for d in range(1, 7):
            num = (d + 1) * (d + 2) // 2
            xs, ys = [], []
            for k in range(d + 1):
                for j in range(d + 1 - k):
                    xs.append(F(float(F(j, 1) + dec_(-2, 2) / 10 + F(1, 10))))
                    ys.append(F(float(F(k, 1) + dec_(-2, 2) / 10 + F(1, 10))))
            t = [xs, ys]
            t2 = [[F(float(F(1, 10))), F(float(F(11, 10))), F(float(F(1, 10)))], [F(float(F(1, 10))), F(float(F(1, 10))), F(float(F(11, 10)))]]
            calls = [("evaluate_cartesian", [enc_f(F(1, 4)), enc_f(F(1, 2))]), ("evaluate_barycentric", [enc_f(F(1, 4)), enc_f(F(1, 4)), enc_f(F(1, 2))]),
                     ("evaluate_cartesian_multi", [enc_arr([[F(1, 4), F(1, 2)], [F(0), F(1)]])]),
                     ("subdivide", []), ("elevate", []), ("edges", []), ("locate", [enc_arr([[xs[0]], [ys[0]]])]), ("area", [])]
            if d <= 3:
                calls.append(("is_valid", []))
            if d <= 2:
                calls.append(("intersect", [["shape", "triangle", enc_arr(t2)]]))
            for m, a in calls:
                if rep_ >= reps and m not in cheap:
                    continue
                jobs.append({"op": "probe.mutation", "args": ["triangle", enc_arr(t), m, a]})
                meta.append(("triangle", d, m, t))
    stats = {"cases": len(jobs), "failures": 0, "methods": sorted({"%s.%s" % (k, m) for k, _, m, _ in meta}),
             "kind": "support sweep: bytes of the receiver, the array it was built from (copy=False), cached edges and argument shapes before/after every public method"}
    for cfg in ("pure", "speedup"):
        res = run_impl_parallel(cfg, jobs)
        for (kind, deg, m, nodes), r in zip(meta, res):
            if "exc" in r:
                # (SciPy-dependent methods raise in the pure configuration: not a mutation question)
                continue
            changed, exc = r["ok"]
            if changed:
                stats["failures"] += 1
                if stats["failures"] <= 3:
                    ctx.violations.append({"kind": "input-modified", "config": cfg, "op": "%s.%s" % (kind, m), "case": {"degree": deg, "nodes": nodes},
                                           "implementation_returned": r, "verdict": "%s.%s modified: %s" % (kind, m, ", ".join(changed))})
    ctx.corr["sweep:no_mutation_public_methods"] = stats


def helper_presentation_sweep(ctx):
    """pure-Python helpers (the compiled twins reject non-float64 buffers) must return the same values for an integer array
    as for the float64 array holding the same numbers: every degree on both sides of the table / generic dispatch"""
    rng = ctx.rng
    jobs, meta = [], []
    def both(op, nodes_int, rest):
        ints = [[int(x) for x in r] for r in nodes_int]
        hexes = [[float(x).hex() for x in r] for r in nodes_int]
        for pres in ({"a": hexes}, {"ai": ints}):
            jobs.append({"op": op, "args": [pres] + rest, "check_mutation": True})
            meta.append((op, ints))
    for rep in range(1 if ctx.quick() else 5):
        for n in range(1, 9):
            c = [[rng.randint(-9, 9) for _ in range(n + 1)] for _ in range(2)]
            both("hazmat.subdivide_nodes", c, [])
            both("hazmat.specialize_curve", c, [enc_f(F(1, 4)), enc_f(F(3, 4))])
            both("hazmat.elevate_nodes", c, [])
            both("hazmat.evaluate_multi", c, [enc_vec([F(1, 4), F(1, 2)])])
            both("hazmat.evaluate_hodograph", c, [])      # (s, nodes) order handled below
        for d in range(1, 8):
            num = (d + 1) * (d + 2) // 2
            t = [[rng.randint(-9, 9) for _ in range(num)] for _ in range(2)]
            both("hazmat.tri_subdivide_nodes", t, [d])
            both("hazmat.tri_specialize", t, [d, enc_vec([F(1), F(0), F(0)]), enc_vec([F(1, 2), F(1, 2), F(0)]), enc_vec([F(1, 2), F(0), F(1, 2)])])
            both("hazmat.tri_evaluate_barycentric", t, [d, enc_f(F(1, 4)), enc_f(F(1, 4)), enc_f(F(1, 2))])
            both("hazmat.tri_jacobian_both", t, [d, 2])
            both("hazmat.tri_compute_edge_nodes", t, [d])
    for rep in range(4 if ctx.quick() else 40):
        k = rng.randint(3, 7)
        pts = [[rng.randint(-4, 4) for _ in range(k)] for _ in range(2)]
        both("hazmat.simple_convex_hull", pts, [])
        both("hazmat.bbox", pts, [])
        both("hazmat.linearization_error", pts, [])
    # evaluate_hodograph takes (s, nodes)
    for j in jobs:
        if j["op"] == "hazmat.evaluate_hodograph":
            j["args"] = [enc_f(F(3, 8)), j["args"][0]]
    res = run_impl_parallel("pure", jobs)
    stats = {"cases": len(jobs) // 2, "failures": 0, "ops": sorted({m[0] for m in meta}),
             "kind": "support sweep (pure configuration): integer-array presentation of the control net vs float64 presentation, hazmat helpers"}
    for i in range(0, len(res), 2):
        a, b = res[i], res[i + 1]
        if a.get("mutated") or b.get("mutated"):
            stats["failures"] += 1
            ctx.violations.append({"kind": "input-modified", "config": "pure", "op": meta[i][0], "case": {"integer_nodes": meta[i][1]},
                                   "implementation_returned": {"float64": a, "int64": b}, "verdict": "%s modified an array passed to it" % meta[i][0]})
            continue
        def norm(x):
            # values, not encodings: an integer 4 and the double 4.0 are the same answer
            if isinstance(x, (list, tuple)):
                return tuple(norm(e) for e in x)
            if isinstance(x, bool) or x is None or isinstance(x, str):
                return x
            if isinstance(x, (int, F)):
                return F(x)
            return x
        same = ("exc" in a) == ("exc" in b) and ("exc" in a or norm(dec_res(a["ok"])) == norm(dec_res(b["ok"])))
        if not same:
            stats["failures"] += 1
            if stats["failures"] <= 3:
                ctx.violations.append({"kind": "presentation-dependence", "config": "pure", "op": meta[i][0], "case": {"integer_nodes": meta[i][1]},
                                       "implementation_returned": {"float64": a, "int64": b},
                                       "verdict": "%s returns different values for an integer array than for the float64 array with the same numbers" % meta[i][0]})
    ctx.corr["sweep:helper_integer_presentation"] = stats


HEADER_T = "From Coq Require Import List QArith.\nFrom BZ Require Import Model.WorkspaceTri Corr.Common Corr.C14T.\nImport ListNotations.\nOpen Scope Q_scope.\n"


def tri_inputs():
    """(nodes1, degree1, nodes2, degree2): 0, 1x3, 1x6, 3x3 ... curved polygons x segments, and a contained pair"""
    T1 = [[F(0), F(1), F(0)], [F(0), F(0), F(1)]]
    return [
        (T1, 1, [[F(5), F(6), F(5)], [F(5), F(5), F(6)]], 1),                                       # disjoint: no polygon
        (T1, 1, [[F(1, 4), F(5, 4), F(1, 4)], [F(1, 4), F(1, 4), F(5, 4)]], 1),                     # one polygon, 3 segments
        ([[F(0), F(4), F(2)], [F(0), F(0), F(3)]], 1, [[F(0), F(4), F(2)], [F(2), F(2), F(-1)]], 1),  # star: 3 polygons x 3 segments
        ([[F(0), F(8), F(0)], [F(0), F(0), F(8)]], 1, [[F(1), F(2), F(1)], [F(1), F(1), F(2)]], 1),  # second inside first: contained
        ([[F(0), F(1, 2), F(1), F(0), F(1, 2), F(0)], [F(0), F(-1, 2), F(0), F(1, 2), F(1, 2), F(1)]], 2,
         [[F(-1, 2), F(1, 2), F(3, 2), F(0), F(1), F(1, 2)], [F(-1, 8), F(-1, 8), F(-1, 8), F(3, 8), F(3, 8), F(7, 8)]], 2),  # quadratic pair
        ([[F(0), F(4), F(2)], [F(0), F(0), F(4)]], 1, [[F(0), F(4), F(2)], [F(3), F(3), F(-1)]], 1),  # hexagon-like overlap
    ]


def triangle_histories(ctx):
    """histories of the triangle-intersection entry point (two workspaces, up to two resizes per call, resets to arbitrary sizes,
    size queries, calls with 0 / 1 / 2 resizes allowed) executed in ONE process and compared, operation by operation, with the
    state machine Model/WorkspaceTri.v inside Coq; every successful result also bitwise with a pristine process"""
    rng = ctx.rng
    inp = tri_inputs()
    job = lambda i, r: {"op": "speedup.triangle_intersections", "args": [enc_arr(inp[i][0]), inp[i][1], enc_arr(inp[i][2]), inp[i][3], r]}
    pristine = [run_impl("speedup", [job(i, 2)])[0] for i in range(len(inp))]
    if any("exc" in r for r in pristine):
        ctx.violations.append({"kind": "history-call-raised", "op": "speedup.triangle_intersections", "case": {},
                               "implementation_returned": pristine, "verdict": "a triangle pair raised in a pristine process", "no_input": True})
        return
    table = []
    for r in pristine:
        polys = dec_res(r["ok"])
        table.append([[(int(e), a, b) for (e, a, b) in p] for p in polys])
    ctx.notes.append("triangle pairs: polygons x segments = %s" % [[len(p) for p in t] for t in table])
    n_hist = 5 if ctx.quick() else 40
    length = 40 if ctx.quick() else 300
    texts, metas = [], []
    stats = {"histories": n_hist, "length": length, "compared": 0, "disagreements": 0, "bitwise_vs_pristine": 0}
    pl = lambda polys: "[" + "; ".join("[" + "; ".join("(%d%%nat, %s, %s)" % (e, coq_q(a), coq_q(b)) for (e, a, b) in p) + "]" for p in polys) + "]"
    for h in range(n_hist):
        ops, jobs = [], []
        for _ in range(length):
            u = rng.random()
            if u < 0.6:
                i = rng.randrange(len(inp)); r = rng.choice([0, 1, 2, 2, 2, 3])
                ops.append(("I", i, r)); jobs.append(job(i, r))
            elif u < 0.85:
                e = rng.choice([-1, 1, 2, 3, 5]); g = rng.choice([-1, 1, 2, 4, 6, 9, 12])
                ops.append(("R", e, g)); jobs.append({"op": "speedup.reset_triangle_workspaces", "args": [e, g]})
            else:
                ops.append(("Q",)); jobs.append({"op": "speedup.triangle_workspace_sizes", "args": []})
        res = run_impl("speedup", jobs)
        obs, ok = [], True
        for k, (o, r) in enumerate(zip(ops, res)):
            if o[0] == "I":
                if "exc" in r:
                    m1 = re.search(r"segment ends. Needed space for (\d+) integers but only had space for (\d+)", r.get("msg", ""))
                    m2 = re.search(r"for segments. Needed space for (\d+) .CurvedPolygonSegment.-s but only had space for (\d+)", r.get("msg", ""))
                    if r["exc"] == "ValueError" and m1:
                        obs.append("(EndsTooSmall segT %s %s)" % m1.groups())
                    elif r["exc"] == "ValueError" and m2:
                        obs.append("(SegsTooSmall segT %s %s)" % m2.groups())
                    else:
                        ctx.violations.append({"kind": "history-call-raised", "op": "speedup.triangle_intersections", "case": {"history": [list(map(str, x)) for x in ops[:k + 1]]},
                                               "implementation_returned": r, "verdict": "a call that succeeds in a pristine process raised %s inside a history" % r["exc"]})
                        ok = False
                        break
                else:
                    polys = [[(int(e), a, b) for (e, a, b) in p] for p in dec_res(r["ok"])]
                    obs.append("(Result segT %s)" % pl(polys))
                    stats["bitwise_vs_pristine"] += 1
                    if json.dumps(r["ok"]) != json.dumps(pristine[o[1]]["ok"]):
                        ctx.violations.append({"kind": "result-depends-on-history", "op": "speedup.triangle_intersections", "case": {"input": o[1], "history_length": k},
                                               "implementation_returned": r, "pristine": pristine[o[1]], "verdict": "result differs bitwise from the same call in a pristine process"})
            elif o[0] == "Q":
                e, g = dec_res(r["ok"])
                obs.append("(Sizes segT %d %d)" % (int(e), int(g)))
            else:
                obs.append("(Done segT)")
        if not ok:
            continue
        op_t = []
        for o in ops:
            if o[0] == "I":
                op_t.append("(Intersect nat %d%%nat %d%%nat)" % (o[1], o[2]))
            elif o[0] == "R":
                f = lambda v: "None" if v == -1 else "(Some %d%%nat)" % v
                op_t.append("(Reset nat %s %s)" % (f(o[1]), f(o[2])))
            else:
                op_t.append("(QuerySizes nat)")
        tb = "[" + "; ".join(pl(t) for t in table) + "]"
        texts.append(HEADER_T + "\nEval vm_compute in (bad_indices chk_tri_history [(%s, [%s], [%s])]).\n" % (tb, "; ".join(op_t), "; ".join(obs)))
        metas.append(ops)
    outs = run_cases_sharded("C14_tri_history", texts)
    for (rc, out, err, dt), ops in zip(outs, metas):
        bad = parse_bad(out) if rc == 0 else None
        stats["compared"] += 1
        if bad is None:
            ctx.violations.append({"kind": "correspondence-not-checkable", "correspondence": "triangle-workspace-history", "detail": (out + err)[-1500:], "no_input": True})
        elif bad:
            stats["disagreements"] += 1
            ctx.violations.append({"kind": "model-implementation-disagreement", "correspondence": "triangle-workspace-history", "case": {"history": [list(map(str, x)) for x in ops]},
                                   "verdict": "the observable outputs of the history (results, sizes, size errors) differ from the two-buffer state machine",
                                   "op": "speedup.triangle_intersections", "config": "speedup"})
    ctx.corr["triangle_workspace_histories"] = dict(stats, distinct_nontrivial=n_hist)


def run(ctx):
    prove(ctx, DEPS)
    rng = ctx.rng
    inp = inputs()
    # ---- pristine results: every input alone in a fresh process
    pristine = []
    for (a, b) in inp:
        r = run_impl("speedup", [{"op": "speedup.curve_intersections", "args": [enc_arr(a), enc_arr(b), True]}])[0]
        pristine.append(r)
    table = []
    for r in pristine:
        arr, _flag = dec_res(r["ok"])
        table.append(list(zip(arr[0], arr[1])) if arr and arr[0] else [])
    sizes = [len(t) for t in table]
    ctx.notes.append("pristine intersection counts of the inputs: %s" % sizes)
    # ---- histories
    n_hist = 6 if ctx.quick() else 40
    length = 50 if ctx.quick() else 400
    stats = {"histories": n_hist, "length": length, "compared": 0, "disagreements": 0, "bitwise_vs_pristine": 0}
    texts, metas = [], []
    for h in range(n_hist):
        ops, jobs = [], []
        for _ in range(length):
            u = rng.random()
            if u < 0.6:
                i = rng.randrange(len(inp))
                allow = rng.random() < 0.8
                ops.append(("I", i, allow))
                jobs.append({"op": "speedup.curve_intersections", "args": [enc_arr(inp[i][0]), enc_arr(inp[i][1]), allow], "retain": True})
            elif u < 0.75:
                n = rng.randint(1, 12)
                ops.append(("R", n)); jobs.append({"op": "speedup.reset_curves_workspace", "args": [n]})
            elif u < 0.85:
                ops.append(("F",)); jobs.append({"op": "speedup.free_curve_intersections_workspace", "args": []})
            else:
                ops.append(("Q",)); jobs.append({"op": "speedup.curves_workspace_size", "args": []})
        res = run_impl("speedup", jobs + [{"op": "probe.reread", "args": []}])      # ONE process: the history shares the compiled workspaces
        again = list(res[-1].get("ok") or [])       # the objects returned during the history, read again at its end
        res = res[:-1]
        obs, obs_late = [], []
        ok = True
        for o, r in zip(ops, res):
            if o[0] == "I" and "ok" in r and again:
                late = again.pop(0)
                arr2, _ = dec_res(late)
                pairs2 = list(zip(arr2[0], arr2[1])) if arr2 and arr2[0] else []
                obs_late.append("(Result pairT [%s])" % "; ".join("(%s, %s)" % (coq_q(a), coq_q(b)) for a, b in pairs2))
                stats["reread_at_end"] = stats.get("reread_at_end", 0) + 1
                if json.dumps(late) != json.dumps(r["ok"]):
                    k = ops.index(o)
                    ctx.violations.append({"kind": "returned-array-modified-later", "op": "speedup.curve_intersections", "config": "speedup",
                                           "case": {"input": o[1], "nodes": inp[o[1]], "later_operations": [list(map(str, x)) for x in ops[k + 1:]][:40]},
                                           "implementation_returned": {"at_return": r["ok"], "at_end_of_history": late},
                                           "verdict": "the array returned by this call holds other values after later calls"})
            else:
                obs_late.append(None)
            if o[0] == "I":
                if "exc" in r:
                    ts = parse_too_small(r.get("msg", "")) if r["exc"] == "ValueError" else None
                    if ts is None:
                        ctx.violations.append({"kind": "history-call-raised", "op": "speedup.curve_intersections", "case": {"history": ops[:ops.index(o) + 1]},
                                               "implementation_returned": r, "verdict": "a call that succeeds in a pristine process raised %s inside a history" % r["exc"]})
                        ok = False
                        break
                    obs.append("(TooSmall pairT %d %d)" % ts)
                else:
                    arr, _ = dec_res(r["ok"])
                    pairs = list(zip(arr[0], arr[1])) if arr and arr[0] else []
                    obs.append("(Result pairT [%s])" % "; ".join("(%s, %s)" % (coq_q(a), coq_q(b)) for a, b in pairs))
                    # bitwise against the pristine process
                    stats["bitwise_vs_pristine"] += 1
                    if json.dumps(r["ok"]) != json.dumps(pristine[o[1]]["ok"]):
                        ctx.violations.append({"kind": "result-depends-on-history", "op": "speedup.curve_intersections",
                                               "case": {"input": o[1], "history_length": ops.index(o)}, "implementation_returned": r,
                                               "pristine": pristine[o[1]], "verdict": "result differs bitwise from the same call in a pristine process"})
            elif o[0] == "Q":
                obs.append("(Size pairT %d)" % dec_res(r["ok"]) if "ok" in r else "(StaleRead pairT)")
            else:
                obs.append("(Done pairT)" if "ok" in r else "(StaleRead pairT)")
        if not ok:
            continue
        tb = "[" + "; ".join("[" + "; ".join("(%s, %s)" % (coq_q(a), coq_q(b)) for a, b in t) + "]" for t in table) + "]"
        op_t = []
        for o in ops:
            if o[0] == "I":
                op_t.append("(Intersect nat %d%%nat %s)" % (o[1], "true" if o[2] else "false"))
            elif o[0] == "R":
                op_t.append("(Reset nat %d%%nat)" % o[1])
            elif o[0] == "F":
                op_t.append("(Free nat)")
            else:
                op_t.append("(QuerySize nat)")
        texts.append(HEADER + "\nDefinition cases := [(%s, [%s], [%s])].\nEval vm_compute in (bad_indices chk_history cases).\n" % (
            tb, "; ".join(op_t), "; ".join(obs)))
        metas.append(ops)
        # the same history with every result as it reads at the END of the history: results are values in the state machine, so
        # the arrays handed back must still hold them after all later operations
        obs2 = [l if l is not None else o_ for o_, l in zip(obs, obs_late)]
        texts.append(HEADER + "\nDefinition cases := [(%s, [%s], [%s])].\nEval vm_compute in (bad_indices chk_history cases).\n" % (
            tb, "; ".join(op_t), "; ".join(obs2)))
        metas.append(ops)
    outs = run_cases_sharded("C14_history", texts)
    for (rc, out, err, dt), ops in zip(outs, metas):
        bad = parse_bad(out) if rc == 0 else None
        stats["compared"] += 1
        if bad is None:
            ctx.violations.append({"kind": "correspondence-not-checkable", "correspondence": "history", "detail": (out + err)[-1500:], "no_input": True})
        elif bad:
            stats["disagreements"] += 1
            ctx.violations.append({"kind": "model-implementation-disagreement", "correspondence": "workspace-history", "case": {"history": ops},
                                   "verdict": "the observable outputs of the history (results, sizes, size errors) differ from the state machine",
                                   "op": "speedup.curve_intersections", "config": "speedup"})
    ctx.corr["workspace_histories"] = dict(stats, distinct_nontrivial=n_hist)
    ctx.samples.append({"correspondence": "workspace_histories", "case": {"first_ops": [list(map(str, o)) for o in metas[0][:8]] if metas else []}})

    triangle_histories(ctx)
    numerical_state_sweep(ctx)
    mutation_sweep(ctx)
    helper_presentation_sweep(ctx)

    # ---- presentation independence and non-mutation through the public constructors (both configurations)
    pres_stats = {"cases": 0, "failures": 0, "kind": "support sweep: list / int array / C-order / F-order presentations; inputs unchanged"}
    for cfg in ("pure", "speedup"):
        jobs, meta = [], []
        for _ in range(12 if ctx.quick() else 200):
            n = rng.randint(1, 5)
            rows = [[F(rng.randint(-6, 6)) for _ in range(n + 1)] for _ in range(2)]
            s = F(rng.randint(0, 8), 8)
            ints = [[int(x) for x in r] for r in rows]
            hexes = [[float(x).hex() for x in r] for r in rows]
            for pres in ({"a": hexes}, {"ac": hexes}, {"ai": ints}, {"l": hexes}):
                jobs.append({"op": "Curve.from_presentation", "args": [pres, enc_f(s)], "check_mutation": True})
                meta.append((rows, s))
        res = run_impl_parallel(cfg, jobs)
        for i in range(0, len(res), 4):
            pres_stats["cases"] += 1
            base = json.dumps(res[i].get("ok"))
            for k in range(4):
                r = res[i + k]
                if "exc" in r or json.dumps(r.get("ok")) != base or r.get("mutated"):
                    pres_stats["failures"] += 1
                    ctx.violations.append({"kind": "presentation-dependence", "config": cfg, "op": "Curve.from_nodes(...).evaluate",
                                           "case": {"rows": meta[i][0], "s": meta[i][1], "presentation": k},
                                           "implementation_returned": r, "verdict": "result depends on the presentation of the control points, or an input was modified"})
                    break
        # cached edges: mutating what was handed out must not change later answers
        t = [[F(0), F(1), F(2), F(0), F(1), F(0)], [F(0), F(0), F(0), F(1), F(1), F(2)]]
        r = run_impl(cfg, [{"op": "Triangle.edges_twice", "args": [enc_arr(t)]}])[0]
        if "ok" in r:
            e1, e2 = dec_res(r["ok"])
            if e1 != e2:
                ctx.violations.append({"kind": "cached-edges-aliased", "config": cfg, "op": "Triangle.edges", "case": {"nodes": t},
                                       "implementation_returned": r, "verdict": "mutating the arrays returned by Triangle.edges changed a later answer"})
    ctx.corr["sweep:presentations_and_mutation"] = pres_stats
    return finish(ctx, "PROVED: the buffer protocol around the compiled curve-intersection routine as a state machine (capacity, per-cell "
                  "freshness, resize-and-retry, size error): for every history the value returned is `isect` of the call's own arguments "
                  "and no stale cell is read. `isect` (the Fortran numerics being a function of its arguments) is an ASSUMPTION of the "
                  "theorems; it is what the bitwise comparison with pristine processes validates. Tie: histories of 50 (quick) / 400 "
                  "(thorough) operations - intersections with 0..9 results forcing workspace growth, calls without resize permission, "
                  "resets, frees, size queries - executed in one process and compared operation by operation with the state machine "
                  "(inside Coq). Presentation independence, non-mutation and the edge cache are support sweeps",
                  unproved=["purity of the numerical code itself (assumptions `isect`, `tisect`)",
                            "memory safety (-fcheck=all build not run)", "pure-Python configuration has no hidden buffers; swept only"])
