"""C12 - Length and area equal the defining integrals (area: proof; length: support sweep only)."""
import math
from fractions import Fraction

from common import enc_arr, enc_f, coq_q, coq_list, coq_mat, dyadic, dec_res, run_impl
from framework import prove, correspond, sweep, finish
import oracle_q as oq

DEPS = ["Props/C12.vo", "Corr/C12.vo"]
HEADER = "From Coq Require Import List QArith.\nFrom BZ Require Import Corr.Common Corr.C12.\nImport ListNotations.\nOpen Scope Q_scope.\n"
U = Fraction(1, 2 ** 53)
F = Fraction


def val_out(res, c):
    return [("val", res)]


def gen_edges(ctx):
    rng = ctx.rng
    out = []
    for n in [1, 2, 3, 4] * (8 if ctx.quick() else 80):
        kind = rng.choice(["unit", "random", "random"])
        if kind == "unit":
            i, j = rng.randint(0, n), rng.randint(0, n)
            rows = [[F(1 if k == i else 0) for k in range(n + 1)], [F(1 if k == j else 0) for k in range(n + 1)]]
        else:
            rows = [[dyadic(rng, 12, 4) for _ in range(n + 1)] for _ in range(2)]
        out.append({"n": n, "rows": rows})
    for n in [0, 5, 6, 8]:
        out.append({"n": n, "rows": [[dyadic(rng, 6, 2) for _ in range(n + 1)] for _ in range(2)]})
    return out


def coq_shoe(c, obs):
    if obs[0][0] == "exc":
        if obs[0][1] != "UnsupportedDegree":
            return None
        return ["(%s, %s, @None Q, 0, 0)" % (coq_list(c["rows"][0]), coq_list(c["rows"][1]))]
    if obs[0][0] == "malformed":
        return None
    return ["(%s, %s, Some %s, %s, 0)" % (coq_list(c["rows"][0]), coq_list(c["rows"][1]), coq_q(obs[0][1]), coq_q(2 * U))]


def tri_edges(d, rows):
    """edge control nets of a degree-d triangle net (rows: x, y)"""
    def idx(j, k):
        return sum(d + 1 - kk for kk in range(k)) + j
    e1 = [idx(j, 0) for j in range(d + 1)]
    e2 = [idx(d - k, k) for k in range(d + 1)]
    e3 = [idx(0, d - k) for k in range(d + 1)]
    return [([rows[0][i] for i in e], [rows[1][i] for i in e]) for e in (e1, e2, e3)]


def gen_tris(ctx):
    rng = ctx.rng
    out = []
    for d in [1, 2, 3, 4] * (5 if ctx.quick() else 50):
        n = (d + 1) * (d + 2) // 2
        rows = [[dyadic(rng, 10, 3) for _ in range(n)] for _ in range(2)]
        out.append({"d": d, "rows": rows})
    for d in (5, 6):
        n = (d + 1) * (d + 2) // 2
        out.append({"d": d, "rows": [[dyadic(rng, 6, 2) for _ in range(n)] for _ in range(2)]})
    return out


def coq_area(c, obs):
    edges = tri_edges(c["d"], c["rows"])
    et = "[" + "; ".join("(%s, %s)" % (coq_list(a), coq_list(b)) for a, b in edges) + "]"
    if obs[0][0] == "exc":
        if obs[0][1] != "UnsupportedDegree":
            return None
        return ["(%s, @None Q, 0, 0)" % et]
    if obs[0][0] == "malformed":
        return None
    big = max(abs(x) for r in c["rows"] for x in r) or F(1)
    return ["(%s, Some %s, 0, %s)" % (et, coq_q(obs[0][1]), coq_q(64 * U * big * big))]


def exact_green(vx, vy):
    """1/2 int_0^1 (x y' - y x') ds, exactly"""
    px, py = oq.to_power(vx), oq.to_power(vy)
    def der(p):
        return [k * p[k] for k in range(1, len(p))]
    def integ(p):
        return sum(c / (k + 1) for k, c in enumerate(p))
    a = oq.poly_mul(px, der(py)) if len(py) > 1 else [F(0)]
    b = oq.poly_mul(py, der(px)) if len(px) > 1 else [F(0)]
    return (integ(a) - integ(b)) / 2


def judge_shoe(c, op, cfg, raw):
    n = c["n"]
    if "exc" in raw:
        return None if (raw["exc"] == "UnsupportedDegree" and not 1 <= n <= 4) else "raised %s for edge degree %d" % (raw["exc"], n)
    if not 1 <= n <= 4:
        return "edge degree %d did not raise UnsupportedDegree" % n
    got = dec_res(raw["ok"])
    want = exact_green(c["rows"][0], c["rows"][1])
    big = max(abs(x) for r in c["rows"] for x in r) or F(1)
    if abs(got - want) > 64 * U * big * big:
        return "shoelace value %r differs from the Green integral %r" % (float(got), float(want))
    return None


def judge_area(c, op, cfg, raw):
    d = c["d"]
    if "exc" in raw:
        return None if (raw["exc"] == "UnsupportedDegree" and d > 4) else "raised %s for degree %d" % (raw["exc"], d)
    if d > 4:
        return "degree %d did not raise" % d
    got = dec_res(raw["ok"])
    want = sum(exact_green(a, b) for a, b in tri_edges(d, c["rows"]))
    big = max(abs(x) for r in c["rows"] for x in r) or F(1)
    if abs(got - want) > 256 * U * big * big:
        return "area %r differs from the boundary integral %r" % (float(got), float(want))
    return None


# ---------------- length: support sweep (QUADPACK is not modelled) ----------------
def gauss_length(rows, pieces=2048):
    """reference value by composite 8-point Gauss-Legendre in binary64 (support only), vectorised"""
    import numpy as np
    xs, ws = np.polynomial.legendre.leggauss(8)
    n = len(rows[0]) - 1
    edges = np.linspace(0.0, 1.0, pieces + 1)
    a, b = edges[:-1, None], edges[1:, None]
    s = (0.5 * (a + b) + 0.5 * (b - a) * xs[None, :]).ravel()
    w = (0.5 * (b - a) * ws[None, :]).ravel()
    sp = np.zeros_like(s)
    m = n - 1
    for r in rows:
        v = np.zeros_like(s)
        for i in range(n):
            v += math.comb(m, i) * s ** i * (1 - s) ** (m - i) * float(n * (r[i + 1] - r[i]))
        sp += v * v
    return float(np.sum(w * np.sqrt(sp)))


def reference_length(rows):
    """(value, trusted): two resolutions must agree to 2^-36 relative, otherwise the case makes no claim (near-cusps make
    the integrand non-smooth and a fixed rule inaccurate)"""
    r1, r2 = gauss_length(rows, 2048), gauss_length(rows, 8192)
    return r2, abs(r1 - r2) <= 2.0 ** -36 * max(r2, 1e-300)


def gen_len(ctx):
    rng = ctx.rng
    out = []
    for n in list(range(1, 13)) * (10 if ctx.quick() else 60):
        dim = rng.choice([2, 2, 3])
        rows = [[F(rng.randint(-40, 40), 8) for _ in range(n + 1)] for _ in range(dim)]
        if all(len(set(r)) == 1 for r in rows):
            continue
        out.append({"n": n, "rows": rows})
    return out


def gauss_length_graded(rows, a, levels, sub):
    """composite 8-point Gauss-Legendre on a mesh graded geometrically towards the parameter a (where the speed vanishes or
    nearly vanishes): panel boundaries a +- 2^-j, j = 1..levels, each panel split into `sub` pieces"""
    import numpy as np
    pts = {0.0, 1.0, float(a)}
    for j in range(1, levels + 1):
        for sgn in (-1, 1):
            x = float(a) + sgn * 2.0 ** -j
            if 0.0 < x < 1.0:
                pts.add(x)
    pts = sorted(pts)
    edges = []
    for lo, hi in zip(pts[:-1], pts[1:]):
        edges.extend(np.linspace(lo, hi, sub + 1)[:-1])
    edges.append(1.0)
    edges = np.array(edges)
    xs, ws = np.polynomial.legendre.leggauss(8)
    n = len(rows[0]) - 1
    lo_, hi_ = edges[:-1, None], edges[1:, None]
    s = (0.5 * (lo_ + hi_) + 0.5 * (hi_ - lo_) * xs[None, :]).ravel()
    w = (0.5 * (hi_ - lo_) * ws[None, :]).ravel()
    sp = np.zeros_like(s)
    m = n - 1
    for r in rows:
        v = np.zeros_like(s)
        for i in range(n):
            v += math.comb(m, i) * s ** i * (1 - s) ** (m - i) * float(n * (r[i + 1] - r[i]))
        sp += v * v
    return float(np.sum(w * np.sqrt(sp)))


def gen_len_cusps(ctx):
    """curves whose speed vanishes (or nearly vanishes) at a known interior parameter a: cusps  B' = (s - a)^2 (p(s), q(s)) + (0, eps),
    and straight curves that double back  B' = (s - a) p(s) (1, c) + (0, eps);  eps = 0, 2^-8, 2^-12.  Built in the power basis in
    rational arithmetic, converted to Bernstein form and rounded to binary64 (the adaptive quadrature has to refine around a)"""
    rng = ctx.rng
    out = []
    for _ in range(30 if ctx.quick() else 600):
        a = F(rng.randint(3, 13), 16)
        kind = rng.choice(["cusp", "cusp", "double-back"])
        # (curves whose speed NEARLY vanishes are a FIXED corpus, see near_cusp_corpus: known finding F21)
        eps = F(0)            # exact zero of the speed only: every NEARLY vanishing speed is in the fixed corpus (F21)
        rng.choice([0, 1, 2])  # (keeps the random stream of earlier versions aligned)
        if rng.random() < 0.5:
            a = F(rng.randint(3 * 17, 13 * 17), 16 * 17)            # not a break point of the bisection
        deg_p = rng.randint(1, 3)
        p = [F(rng.randint(-8, 8), 2) for _ in range(deg_p + 1)]
        q = [F(rng.randint(-8, 8), 2) for _ in range(deg_p + 1)]
        if not any(p) or not any(q):
            continue
        # ONE clean zero of the speed: the cofactor must stay away from zero on [-1/8, 9/8] (a second zero or dip close to the first is
        # finding F21's phenomenon again - the thorough tier drew three such curves; they are pinned in checks/f21_extra.json)
        grid_ = [F(k, 64) for k in range(-8, 73)]
        pv = [oq.peval(p, x) if hasattr(oq, "peval") else sum(c_ * x ** i for i, c_ in enumerate(p)) for x in grid_]
        qv = [sum(c_ * x ** i for i, c_ in enumerate(q)) for x in grid_]
        if kind == "cusp":
            mag = [u * u + v * v for u, v in zip(pv, qv)]
        else:
            mag = [u * u for u in pv]
            if any(pv[i] * pv[i + 1] <= 0 for i in range(len(pv) - 1)):
                continue
        if min(mag) * 64 < max(mag):
            continue
        fac = oq.poly_pow([-a, F(1)], 2 if kind == "cusp" else 1)
        dx = oq.poly_mul(fac, p)
        if kind == "cusp":
            dy = oq.poly_mul(fac, q)
        else:
            c_ = F(rng.randint(-4, 4), 2)
            dy = [c_ * v for v in dx]
        dy = [dy[0] + eps] + list(dy[1:])
        integ = lambda d: [F(0)] + [v / (i + 1) for i, v in enumerate(d)]
        n = len(dx)            # degree of x
        rows = [[F(float(v)) for v in oq.from_power(integ(dx), n)], [F(float(v)) for v in oq.from_power(integ(dy), n)]]
        if all(len(set(r)) == 1 for r in rows):
            continue
        out.append({"n": n, "rows": rows, "a": a, "kind": kind, "eps": eps})
    return out


def _cusp_curve(a, eps, p, q):
    fac = oq.poly_pow([-a, F(1)], 2)
    dx, dy = oq.poly_mul(fac, p), oq.poly_mul(fac, q)
    dy = [dy[0] + eps] + list(dy[1:])
    integ = lambda d: [F(0)] + [v / (i + 1) for i, v in enumerate(d)]
    n = len(dx)
    return n, [[F(float(v)) for v in oq.from_power(integ(dx), n)], [F(float(v)) for v in oq.from_power(integ(dy), n)]]


def near_cusp_corpus():
    """a FIXED corpus (own PRNG, independent of the run's seed) of nearly cusped curves B' = (s - a)^2 (p, q) + (0, eps),
    eps = 2^-8, 2^-12, 2^-16: the adaptive quadrature under-samples the narrow dip of the speed on some of them (known finding
    F21: the inputs that fail on the unchanged tree are listed in checks/f21_near_cusps.json); every other one must meet the
    advertised tolerance"""
    import random
    rng = random.Random(20261002)
    out = []
    while len(out) < 160:
        a = F(rng.randint(3 * 17, 13 * 17), 16 * 17) if rng.random() < 0.5 else F(rng.randint(3, 13), 16)
        eps = rng.choice([F(1, 2 ** 8), F(1, 2 ** 12), F(1, 2 ** 16)])
        deg_p = rng.randint(1, 3)
        p = [F(rng.randint(-8, 8), 2) for _ in range(deg_p + 1)]
        q = [F(rng.randint(-8, 8), 2) for _ in range(deg_p + 1)]
        if not any(p) or not any(q):
            continue
        n, rows = _cusp_curve(a, eps, p, q)
        out.append({"n": n, "rows": rows, "a": a, "kind": "near-cusp", "eps": eps, "index": len(out)})
    # ... and 80 straight curves that NEARLY double back, B' = (s - a) p(s) (1, c) + (0, eps) (own PRNG: the first 160 are unchanged)
    rng2 = random.Random(20261003)
    while len(out) < 240:
        a = F(rng2.randint(3 * 17, 13 * 17), 16 * 17) if rng2.random() < 0.5 else F(rng2.randint(3, 13), 16)
        eps = rng2.choice([F(1, 2 ** 8), F(1, 2 ** 12), F(1, 2 ** 16)])
        p = [F(rng2.randint(-8, 8), 2) for _ in range(rng2.randint(1, 3) + 1)]
        c_ = F(rng2.randint(-4, 4), 2)
        if not any(p):
            continue
        dx = oq.poly_mul([-a, F(1)], p)
        dy = [c_ * v for v in dx]
        dy = [dy[0] + eps] + list(dy[1:])
        integ = lambda d: [F(0)] + [v / (i + 1) for i, v in enumerate(d)]
        n = len(dx)
        rows = [[F(float(v)) for v in oq.from_power(integ(dx), n)], [F(float(v)) for v in oq.from_power(integ(dy), n)]]
        if all(len(set(r)) == 1 for r in rows):
            continue
        out.append({"n": n, "rows": rows, "a": a, "kind": "near-double-back", "eps": eps, "index": len(out)})
    # ... and the failing inputs the thorough tier found outside this corpus (speed with two zeros / dips close together)
    import json as _json
    import os as _os
    for e in _json.load(open(_os.path.join(_os.path.dirname(__file__), "f21_extra.json")))["curves"]:
        out.append({"n": e["n"], "rows": [[F(x) for x in r] for r in e["rows"]], "a": F(e["a"]), "kind": "pinned:" + e["kind"], "eps": F(e["eps"]),
                    "index": len(out)})
    return out


def corpus_key(c):
    return "|".join(",".join(float(v).hex() for v in r) for r in c["rows"])


def judge_len_cusp(c, op, cfg, raw):
    if "exc" in raw:
        return "raised %s: %s" % (raw["exc"], raw.get("msg"))
    got = float(dec_res(raw["ok"]))
    r1, r2 = gauss_length_graded(c["rows"], c["a"], 44, 4), gauss_length_graded(c["rows"], c["a"], 48, 8)
    if abs(r1 - r2) > 2.0 ** -36 * max(r2, 1e-300):
        return None             # the reference itself is not trusted: no claim
    if abs(got - r2) > 4 * 2.0 ** -26 * max(r2, 1e-300) + 1e-12:
        return "length %r of a curve whose speed (nearly) vanishes at s = %s differs from the graded-mesh reference %r by %.3g relative" % (
            got, c["a"], r2, abs(got - r2) / max(r2, 1e-300))
    return None


def judge_len(c, op, cfg, raw):
    if "exc" in raw:
        return "raised %s: %s" % (raw["exc"], raw.get("msg"))
    got = float(dec_res(raw["ok"]))
    rows = c["rows"]
    chord = math.sqrt(sum(float(r[-1] - r[0]) ** 2 for r in rows))
    poly = sum(math.sqrt(sum(float(r[i + 1] - r[i]) ** 2 for r in rows)) for i in range(c["n"]))
    if got < chord * (1 - 1e-9) or got > poly * (1 + 1e-9):
        return "length %r not between chord %r and control polygon %r" % (got, chord, poly)
    ref, trusted = reference_length(rows)
    if not trusted:
        return None
    if abs(got - ref) > 4 * 2.0 ** -26 * max(ref, 1e-300) + 1e-12:
        return "length %r differs from the reference integral %r by more than the advertised quadrature tolerance" % (got, ref)
    return None


def search(ctx):
    return None


def run(ctx):
    prove(ctx, DEPS)
    nt = lambda c: True
    ed = gen_edges(ctx)
    correspond(ctx, "shoelace_for_area", ed, [("hazmat.shoelace_for_area", lambda c: [enc_arr(c["rows"])], val_out)],
               coq_shoe, HEADER, "chk_shoelace", judge=judge_shoe, configs=("pure",), nontrivial=nt)
    tr = gen_tris(ctx)
    correspond(ctx, "Triangle_area", tr, [("Triangle.area", lambda c: [enc_arr(c["rows"])], val_out)],
               coq_area, HEADER, "chk_area", judge=judge_area, nontrivial=nt)
    a_edges = lambda c: [[enc_arr([list(a), list(b)]) for a, b in tri_edges(c["d"], c["rows"])]]
    correspond(ctx, "compute_area", tr, [("shim.tri_compute_area", a_edges, val_out), ("hazmat.tri_compute_area", a_edges, val_out)],
               coq_area, HEADER, "chk_area", judge=judge_area, nontrivial=nt)
    # degree-1 length is the chord (exact up to one square root)
    lines = [c for c in gen_len(ctx) if c["n"] == 1] + [{"n": 1, "rows": [[F(0), F(3)], [F(0), F(4)]]}]
    def coq_chord(c, obs):
        if obs[0][0] in ("exc", "malformed"):
            return None
        return ["(%s, %s, %s)" % (coq_mat(c["rows"]), coq_q(obs[0][1]), coq_q(8 * U))]
    correspond(ctx, "length_degree1", lines, [("Curve.length", lambda c: [enc_arr(c["rows"])], val_out)],
               coq_chord, HEADER, "chk_chord", configs=("speedup",), nontrivial=nt)
    # length of curved curves: the pure-Python path needs SciPy (absent): speedup only; support, not proof
    sweep(ctx, "Curve_length_vs_reference_integral", gen_len(ctx), [("Curve.length", lambda c: [enc_arr(c["rows"])])], judge_len, configs=("speedup",))
    sweep(ctx, "Curve_length_cusps_and_double_backs", gen_len_cusps(ctx), [("Curve.length", lambda c: [enc_arr(c["rows"])])], judge_len_cusp, configs=("speedup",))
    # nearly cusped curves: fixed corpus; the inputs listed in checks/f21_near_cusps.json are known finding F21, the others must pass
    import json as _json
    import os as _os
    pinned = {e["key"] for e in _json.load(open(_os.path.join(_os.path.dirname(__file__), "f21_near_cusps.json")))["failing"]}
    f21 = ("F21 Curve.length misses the advertised quadrature tolerance (errors 1e-7 .. 2e-5 relative) on nearly cusped curves of the fixed "
           "corpus listed in checks/f21_near_cusps.json: QUADPACK's error estimate under-samples the narrow dip of the speed")
    sweep(ctx, "Curve_length_near_cusp_corpus", near_cusp_corpus(), [("Curve.length", lambda c: [enc_arr(c["rows"])])], judge_len_cusp,
          configs=("speedup",), known=lambda c, op, cfg, r: f21 if corpus_key(c) in pinned else None)
    return finish(ctx, "area: theorems for all real nets of edge degree 1-4 with the shoelace triples/scales regenerated from the source. "
                  "LENGTH IS NOT PROVED: dqagse/QUADPACK and scipy.integrate.quad are not modelled; the integrand handed to the "
                  "quadrature is the hodograph norm (C11); a support sweep compares Curve.length with chord/polygon bounds and a "
                  "Gauss-Legendre reference",
                  search=search,
                  unproved=["curve length: accuracy of QUADPACK (support sweep only)",
                            "additivity over subdivision and invariance under elevation of the area are corollaries of the integral "
                            "characterisation together with C04/C08 but are not stated as Coq theorems",
                            "triangle area = integral of the Jacobian determinant (Green's theorem) is not formalised"])
