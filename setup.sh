#!/bin/bash
# MANIFEST.setup_cmd: build the framework offline from files on disk.
set -uo pipefail
cd "$(dirname "$0")"
export PYTHONHASHSEED=0
mkdir -p build evidence coq/Gen
/venv/bin/python translate/py2v.py coq/Gen || echo "setup: translator reported failures (checks will report them)"
[ -f translate/f902v.py ] && { /venv/bin/python translate/f902v.py coq/Gen || true; }
[ -f translate/f902v_fn.py ] && { /venv/bin/python translate/f902v_fn.py coq/Gen || true; }
( cd coq && coq_makefile -f _CoqProject -o Makefile >/dev/null && timeout 3000 make -j16 -k 2>&1 | grep -v '^COQC\|^COQDEP\|^CONDA\|conda' | tail -40 )
if grep -rn --include='*.v' -E '\b(Admitted|admit|Axiom|Parameter|Conjecture|Unset Guard|bypass_check)\b' coq | grep -v '(\*' ; then
  echo "setup: forbidden vernacular found"; fi
harness/build_speedup.sh >/dev/null || echo "setup: speedup build failed (checks will report it)"
echo "setup done"
