#!/bin/bash
# usage: tools/run_all.sh [tier] [seed] [ids...]   runs the checks one after the other on the CURRENT /repo tree and prints one line each
R=${BEZIER_REPO:-/repo}
tier=${1:-quick}; seed=${2:-0}; shift; shift
ids=${@:-C01 C02 C03 C04 C05 C07 C08 C09 C10 C11 C12 C13 C14 C15 C16 C17 C18 C19 C20}
cd "$(dirname "$0")/.."
git -C "$R" diff --quiet || echo "WARNING: /repo has uncommitted changes"
for p in $ids; do
  t0=$(date +%s)
  out=$(VERIF_SEED=$seed timeout 7200 ./check $p --tier $tier 2>&1 | grep -v -i conda)
  rc=$?
  echo "$p $(echo "$out" | grep -c '^VIOLATION') violations; $(echo "$out" | grep '^OK\|^VIOLATION\|^KNOWN' | tr '\n' '|' | cut -c1-400) [$(( $(date +%s) - t0 ))s]"
done
