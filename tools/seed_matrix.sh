#!/bin/bash
# For every kept seeded change: apply it to /repo, run the property's own quick check for PRNG seeds 0 1 2, revert.
# Prints one line per (seed dir, PRNG seed): number of VIOLATION lines and whether one of them carries a failing input.
R=${BEZIER_REPO:-/repo}
cd "$(dirname "$0")/.." || exit 2
git -C "$R" diff --quiet || { echo "/repo has uncommitted changes"; exit 2; }
for d in seeded/*/; do
  [ -n "${MATRIX_FROM:-}" ] && [[ "$(basename $d)" < "$MATRIX_FROM" ]] && continue
  [ -n "${MATRIX_ONLY:-}" ] && [[ " $MATRIX_ONLY " != *" $(basename $d) "* ]] && continue
  pid=$(python3 -c "import json;print(json.load(open('$d/meta.json'))['property'])")
  git -C "$R" apply "$PWD/$d/patch.diff" || { echo "$d patch does not apply"; continue; }
  for sd in ${MATRIX_SEEDS:-0 1 2}; do
    out=$(VERIF_SEED=$sd timeout 1800 ./check $pid 2>&1)
    n=$(echo "$out" | grep -c '^VIOLATION')
    c=$(echo "$out" | grep '^VIOLATION' | grep -vc 'no-failing-input-found')
    echo "$(basename $d) $pid prng=$sd violations=$n with_input=$c"
  done
  git -C "$R" checkout -- .
done
/venv/bin/python translate/py2v.py coq/Gen >/dev/null 2>&1; /venv/bin/python translate/f902v.py coq/Gen >/dev/null 2>&1; /venv/bin/python translate/f902v_fn.py coq/Gen >/dev/null 2>&1
echo "matrix done"
