#!/bin/bash
# Independent re-check of every compiled Props file (and everything it depends on) with coqchk; prints the axioms in context.
# usage: tools/coqchk_all.sh [jobs]   (minutes; up to 4 GB per process) -> coq/coqchk_report.txt
cd "$(dirname "$0")/../coq" || exit 2
J=${1:-6}
ls Props/C*.vo | sed 's|Props/\(C[0-9]*\).vo|\1|' | xargs -P "$J" -I{} sh -c 'timeout 3600 coqchk -silent -o -Q . BZ BZ.Props.{} > /tmp/coqchk_{}.txt 2>&1; echo "{} rc=$?"' 
{ echo "coqchk -silent -o -Q . BZ BZ.Props.Cxx  (Coq $(coqc --version | head -1))"; for f in /tmp/coqchk_C*.txt; do echo "== $(basename $f .txt | sed s/coqchk_//)"; grep -v '^$' "$f" | sed -n '/CONTEXT SUMMARY/,$p'; done; } > coqchk_report.txt
rm -f /tmp/coqchk_C*.txt
grep -c "Axioms" coqchk_report.txt
