#!/bin/bash
# usage: try_seed.sh <seed dir containing patch.diff> <Cxx> [more Cxx...]
# applies the patch to /repo, runs the checks, reverts.
R=${BEZIER_REPO:-/repo}
set -u
SEED=$1; shift
cd "$R" || exit 2
git diff --quiet || { echo "/repo has uncommitted changes"; exit 2; }
git apply "$SEED/patch.diff" || { echo "patch does not apply"; exit 2; }
for pid in "$@"; do
  ( cd /verif && timeout 1800 ./check $pid 2>&1 | grep -v -i conda | tail -6 )
  echo "exit-lines for $pid above"
done
git checkout -- . && git status --short | head -3
( cd /verif && /venv/bin/python translate/py2v.py coq/Gen >/dev/null 2>&1 )
